"""Symbolic values ("proxies") and the per-path execution context of pyvc.

The real function body (mechanically transformed, see extract.py) is *executed* by
CPython on these proxies.  Every truth test of a symbolic boolean is a decision point:
the context replays a prefix of decisions and schedules the alternative, so that repeated
execution enumerates all paths.  Along a path the context collects hypotheses (branch
conditions, assumed callee postconditions, loop invariants) and proof obligations.
"""

from __future__ import annotations

import enum as _enum

from . import terms as tm
from .terms import BOOL, INT, STR, T

# --------------------------------------------------------------------------- control


class PathEnd(BaseException):
    """The current path ends here (loop cut after the invariant was re-established)."""


class Unsupported(BaseException):
    """The code left the supported subset; the function's obligations count as failed."""


class Speculation(BaseException):
    """A decision was needed while evaluating a branch speculatively (see vcrt.RT.ite)."""


class Infeasible(BaseException):
    """An assumption turned out to be literally false: the path does not exist."""


CUR: "Ctx | None" = None
import re as _re

_SAN = _re.compile(r"[^A-Za-z0-9_.!@$%^&*+=<>?/~-]")


def mark_born(obj):
    """Tag an object created during the current path (writes to it need no frame clause)."""
    c = CUR
    b = 0
    if c is not None:
        b = c.data.get("born", 0) + 1
        c.data["born"] = b
    obj.__dict__["_born"] = b
    return obj


def cur() -> "Ctx":
    if CUR is None:
        raise RuntimeError("no symbolic context active")
    return CUR


class Event:
    def __init__(self, kind, **data):
        self.kind = kind
        self.data = data
        self.index = None

    def __getattr__(self, k):
        try:
            return self.data[k]
        except KeyError:
            raise AttributeError(k) from None

    def __repr__(self):
        return f"Event({self.kind}, {self.data})"


class Ctx:
    MAX_DECISIONS = 400

    def __init__(self, prefix, worklist, decls: tm.Decls, fname="?"):
        self.prefix = list(prefix)
        self.taken: list[bool] = []
        self.worklist = worklist
        self.decls = decls
        self.fname = fname
        self.pc: list[T] = []
        self.known: dict[str, bool] = {}
        self.obligations: list[tuple[str, list[T], T, dict]] = []
        self.trace: list[Event] = []
        self.writes: list[tuple[object, str]] = []
        self.counters: dict[str, int] = {}
        self.notes: list[str] = []
        self.nofork = 0
        self.depth = 0  # >0 while evaluating a contract (decisions there are still sound)
        self.await_hook = None
        self.data: dict = {}

    # -- names
    def fresh_name(self, prefix):
        prefix = _SAN.sub("_", prefix)
        k = self.counters.get(prefix, 0)
        self.counters[prefix] = k + 1
        return f"{prefix}!{k}"

    def fresh(self, prefix, sort) -> T:
        return self.decls.const(self.fresh_name(prefix), sort)

    # -- decisions
    def fork(self, cond: T) -> bool:
        if cond.is_lit:
            return tm.litval(cond)
        kn = self.known.get(cond.s)
        if kn is not None:
            return kn
        if self.nofork:
            raise Speculation()
        k = len(self.taken)
        if k >= self.MAX_DECISIONS:
            raise Unsupported(f"more than {self.MAX_DECISIONS} decisions on one path")
        if k < len(self.prefix):
            choice = self.prefix[k]
        else:
            choice = True
            self.worklist.append(self.taken + [False])
        self.taken.append(choice)
        self.pc.append(cond if choice else tm.Not(cond))
        self.known[cond.s] = choice
        self.known[tm.Not(cond).s] = not choice
        return choice

    def assume(self, cond):
        t = B(cond)
        if t.is_lit:
            if not tm.litval(t):
                raise Infeasible()
            return
        self.pc.append(t)

    def prove(self, name, goal, **meta):
        t = B(goal)
        self.obligations.append((name, list(self.pc), t, meta))

    def event(self, kind, **data) -> Event:
        e = Event(kind, **data)
        e.index = len(self.trace)
        e.pc_len = len(self.pc)
        self.trace.append(e)
        return e


# --------------------------------------------------------------------------- coercions


def B(x) -> T:
    if isinstance(x, SymBool):
        return x.t
    if isinstance(x, T):
        assert x.sort == BOOL
        return x
    if isinstance(x, (bool, int)) and not isinstance(x, SymInt):
        return tm.mk_bool(bool(x))
    if x is None:
        return tm.FALSE
    if isinstance(x, SymInt):
        return tm.Ne(x.t, tm.mk_int(0))
    if isinstance(x, (SymStr, SymBytes)):
        return tm.Ne(x.t, tm.mk_str(""))
    if isinstance(x, (str, bytes, list, tuple, dict, set, frozenset)):
        return tm.mk_bool(bool(x))
    if hasattr(x, "__symtruth__"):
        return x.__symtruth__()
    if isinstance(x, _enum.Flag):
        return tm.mk_bool(bool(x))
    return tm.mk_bool(bool(x))


def I(x) -> T:
    if isinstance(x, SymOpt):
        x = x.resolve()
    if isinstance(x, SymInt):
        return x.t
    if isinstance(x, SymBool):
        return tm.Ite(x.t, tm.mk_int(1), tm.mk_int(0))
    if isinstance(x, SymEnum):
        return x.t
    if isinstance(x, T):
        assert x.sort == INT
        return x
    if isinstance(x, bool):
        return tm.mk_int(int(x))
    if isinstance(x, int):
        return tm.mk_int(int(x))
    raise Unsupported(f"not an integer value: {x!r}")


def S(x) -> T:
    if isinstance(x, SymOpt):
        x = x.resolve()
    if isinstance(x, (SymStr, SymBytes)):
        return x.t
    if isinstance(x, T):
        assert x.sort == STR
        return x
    if isinstance(x, str):
        return tm.mk_str(str(x))
    if isinstance(x, (bytes, bytearray)):
        return tm.mk_bytes(bytes(x))
    raise Unsupported(f"not a string value: {x!r}")


def wrap_bool(t: T):
    return tm.litval(t) if t.is_lit else SymBool(t)


def wrap_int(t: T):
    return tm.litval(t) if t.is_lit else SymInt(t)


def wrap_str(t: T):
    return tm.litval(t) if t.is_lit else SymStr(t)


def wrap_bytes(t: T):
    return tm.litval(t).encode("latin-1") if t.is_lit else SymBytes(t)


def is_symbolic(x):
    return isinstance(x, SymBase)


class SymBase:
    __slots__ = ()
    __hash__ = None


# --------------------------------------------------------------------------- bool / int


class SymBool(SymBase):
    __slots__ = ("t",)

    def __init__(self, t):
        self.t = t

    def __bool__(self):
        return cur().fork(self.t)

    def __and__(self, o):
        return wrap_bool(tm.And(self.t, B(o)))

    __rand__ = __and__

    def __or__(self, o):
        return wrap_bool(tm.Or(self.t, B(o)))

    __ror__ = __or__

    def __invert__(self):
        return wrap_bool(tm.Not(self.t))

    def __eq__(self, o):
        if isinstance(o, (bool, SymBool)):
            return wrap_bool(tm.Iff(self.t, B(o)))
        if isinstance(o, (int, SymInt)):
            return wrap_bool(tm.Eq(I(self), I(o)))
        return False

    def __ne__(self, o):
        r = self.__eq__(o)
        return (not r) if isinstance(r, bool) else ~r

    def __int__(self):
        return 1 if cur().fork(self.t) else 0

    __index__ = __int__

    def __repr__(self):
        return f"SymBool({self.t.s})"


def _intlike(o):
    return isinstance(o, (int, SymInt, SymBool, SymEnum)) and not isinstance(o, float)


class SymInt(SymBase):
    __slots__ = ("t",)

    def __init__(self, t):
        self.t = t

    def __repr__(self):
        return f"SymInt({self.t.s})"

    def __bool__(self):
        return cur().fork(tm.Ne(self.t, tm.mk_int(0)))

    def _bin(self, o, f, swap=False):
        if not _intlike(o):
            return NotImplemented
        a, b = self.t, I(o)
        if swap:
            a, b = b, a
        return wrap_int(f(a, b))

    def __add__(self, o):
        return self._bin(o, tm.Add)

    def __radd__(self, o):
        return self._bin(o, tm.Add, True)

    def __sub__(self, o):
        return self._bin(o, tm.Sub)

    def __rsub__(self, o):
        return self._bin(o, tm.Sub, True)

    def __mul__(self, o):
        return self._bin(o, tm.Mul)

    def __rmul__(self, o):
        return self._bin(o, tm.Mul, True)

    def __neg__(self):
        return wrap_int(tm.Neg(self.t))

    def __or__(self, o):
        """Bitwise or with a non-negative constant (per set bit: add it unless already set)."""
        if not isinstance(o, int) or isinstance(o, bool) or o < 0:
            return NotImplemented
        t = self.t
        k = 1
        while k <= o:
            if o & k:
                t = tm.Ite(bit_t(t, k), t, tm.Add(t, tm.mk_int(k)))
            k <<= 1
        return wrap_int(t)

    __ror__ = __or__

    def _cmp(self, o, f):
        if not _intlike(o):
            return NotImplemented
        return wrap_bool(f(self.t, I(o)))

    def __lt__(self, o):
        return self._cmp(o, tm.Lt)

    def __le__(self, o):
        return self._cmp(o, tm.Le)

    def __gt__(self, o):
        return self._cmp(o, tm.Gt)

    def __ge__(self, o):
        return self._cmp(o, tm.Ge)

    def __eq__(self, o):
        if not _intlike(o):
            return False
        return wrap_bool(tm.Eq(self.t, I(o)))

    def __ne__(self, o):
        if not _intlike(o):
            return True
        return wrap_bool(tm.Ne(self.t, I(o)))

    def to_bytes(self, length=1, byteorder="big", *, signed=False):
        if byteorder != "big" or signed or not isinstance(length, int):
            raise Unsupported("to_bytes: only unsigned big endian with constant length")
        c = cur()
        if c.fork(tm.Or(tm.Lt(self.t, tm.mk_int(0)), tm.Ge(self.t, tm.mk_int(256**length)))):
            raise OverflowError("int too big to convert")
        return wrap_bytes(be_encode(self.t, length))


def bit_t(t: T, k: int) -> T:
    """Bit with value k (a power of two) of a non-negative integer term."""
    if t.is_lit:
        return tm.mk_bool(bool(tm.litval(t) & k))
    return tm.Eq(app_mod(tm.app(INT, "div", t, tm.mk_int(k)), 2), tm.mk_int(1))


def app_mod(t: T, m: int) -> T:
    return tm.app(INT, "mod", t, tm.mk_int(m))


def be_encode(t: T, length: int) -> T:
    """Big-endian fixed width encoding as an uninterpreted injection (facts instantiated)."""
    if t.is_lit:
        return tm.mk_bytes(tm.litval(t).to_bytes(length, "big"))
    c = cur()
    f = c.decls.fun(f"be{length}", [INT], STR)
    g = c.decls.fun(f"unbe{length}", [STR], INT)
    r = f(t)
    inrange = tm.And(tm.Le(tm.mk_int(0), t), tm.Lt(t, tm.mk_int(256**length)))
    c.pc.append(tm.Implies(inrange, tm.And(tm.Eq(tm.Len(r), tm.mk_int(length)), tm.Eq(g(r), t))))
    return r


def be_decode(t: T, length: int) -> T:
    if t.is_lit:
        return tm.mk_int(int.from_bytes(tm.litval(t).encode("latin-1"), "big"))
    c = cur()
    f = c.decls.fun(f"be{length}", [INT], STR)
    g = c.decls.fun(f"unbe{length}", [STR], INT)
    r = g(t)
    c.pc.append(tm.Implies(tm.Eq(tm.Len(t), tm.mk_int(length)),
                           tm.And(tm.Le(tm.mk_int(0), r), tm.Lt(r, tm.mk_int(256**length)),
                                  tm.Eq(f(r), t))))
    return r


class SymEnum(SymBase):
    """A member of an IntEnum class, given by its integer value."""

    __slots__ = ("cls", "t")

    def __init__(self, cls, t):
        self.cls = cls
        self.t = t

    def __repr__(self):
        return f"SymEnum({self.cls.__name__}, {self.t.s})"

    @property
    def value(self):
        return wrap_int(self.t)

    def concretize(self):
        if self.t.is_lit:
            return self.cls(tm.litval(self.t))
        c = cur()
        for m in self.cls:
            if c.fork(tm.Eq(self.t, tm.mk_int(m.value))):
                self.t = tm.mk_int(m.value)
                return m
        raise Infeasible()

    @property
    def name(self):
        return self.concretize().name

    def __eq__(self, o):
        if isinstance(o, _enum.Enum):
            if not isinstance(o, self.cls) and not isinstance(o, int):
                return False
            return wrap_bool(tm.Eq(self.t, tm.mk_int(int(o.value))))
        if _intlike(o):
            return wrap_bool(tm.Eq(self.t, I(o)))
        return False

    def __ne__(self, o):
        r = self.__eq__(o)
        return (not r) if isinstance(r, bool) else ~r

    def _cmp(self, o, f):
        return wrap_bool(f(self.t, I(o.value if isinstance(o, _enum.Enum) else o)))

    def __lt__(self, o):
        return self._cmp(o, tm.Lt)

    def __le__(self, o):
        return self._cmp(o, tm.Le)

    def __gt__(self, o):
        return self._cmp(o, tm.Gt)

    def __ge__(self, o):
        return self._cmp(o, tm.Ge)

    def __hash__(self):
        return hash(self.concretize())


class SymFlag(SymBase):
    """A member of an enum.Flag class: one boolean per named flag."""

    __slots__ = ("cls", "bits")

    def __init__(self, cls, bits):
        self.cls = cls
        self.bits = bits  # dict single-bit member -> T(Bool)

    @staticmethod
    def members(cls):
        return [m for m in cls if m.value & (m.value - 1) == 0 and m.value != 0]

    @classmethod
    def of(cls_, cls, v):
        if isinstance(v, SymFlag):
            return v
        return SymFlag(cls, {m: tm.mk_bool(bool(v & m)) for m in SymFlag.members(cls)})

    @classmethod
    def fresh(cls_, cls, name):
        c = cur()
        return SymFlag(cls, {m: c.fresh(f"{name}.{m.name}", BOOL) for m in SymFlag.members(cls)})

    def _zip(self, o, f):
        o = SymFlag.of(self.cls, o)
        return wrap_flag(self.cls, {m: f(self.bits[m], o.bits[m]) for m in self.bits})

    def __or__(self, o):
        return self._zip(o, tm.Or)

    __ror__ = __or__

    def __and__(self, o):
        return self._zip(o, tm.And)

    __rand__ = __and__

    def __invert__(self):
        return wrap_flag(self.cls, {m: tm.Not(t) for m, t in self.bits.items()})

    def __symtruth__(self):
        return tm.Or(*self.bits.values())

    def __bool__(self):
        return cur().fork(self.__symtruth__())

    def __eq__(self, o):
        if not isinstance(o, (SymFlag, self.cls)):
            return False
        o = SymFlag.of(self.cls, o)
        return wrap_bool(tm.And(*[tm.Iff(self.bits[m], o.bits[m]) for m in self.bits]))

    def __ne__(self, o):
        r = self.__eq__(o)
        return (not r) if isinstance(r, bool) else ~r

    def __contains__(self, o):
        o = SymFlag.of(self.cls, o)
        return wrap_bool(tm.And(*[tm.Implies(o.bits[m], self.bits[m]) for m in self.bits]))

    def has(self, member) -> T:
        return self.bits[member]

    def __repr__(self):
        return f"SymFlag({ {m.name: t.s for m, t in self.bits.items()} })"


def wrap_flag(cls, bits):
    if all(t.is_lit for t in bits.values()):
        v = cls(0)
        for m, t in bits.items():
            if tm.litval(t):
                v |= m
        return v
    return SymFlag(cls, bits)


def wrap_enum(cls, t: T):
    if t.is_lit:
        try:
            return cls(tm.litval(t))
        except ValueError:
            return SymEnum(cls, t)
    return SymEnum(cls, t)


# --------------------------------------------------------------------------- str / bytes


def _norm_index(length_t: T, idx, default: T) -> T:
    """Python slice bound -> clamped non-negative index term."""
    if idx is None:
        return default
    it = I(idx)
    if it.is_lit:
        v = tm.litval(it)
        if v >= 0:
            return tm.Min(it, length_t)
        return tm.Max(tm.Add(length_t, it), tm.mk_int(0))
    return tm.Ite(tm.Ge(it, tm.mk_int(0)), tm.Min(it, length_t),
                  tm.Max(tm.Add(length_t, it), tm.mk_int(0)))


class _SymSeqStr(SymBase):
    __slots__ = ("t",)
    _wrap = None
    _pytype = None

    def __init__(self, t):
        self.t = t

    def __repr__(self):
        return f"{type(self).__name__}({self.t.s})"

    def _ok(self, o):
        return isinstance(o, (SymStr, str))

    def __bool__(self):
        return cur().fork(tm.Ne(self.t, tm.mk_str("")))

    def __add__(self, o):
        if not self._ok(o):
            return NotImplemented
        return self._wrap(tm.Concat(self.t, S(o)))

    def __radd__(self, o):
        if not self._ok(o):
            return NotImplemented
        return self._wrap(tm.Concat(S(o), self.t))

    def __eq__(self, o):
        if not self._ok(o):
            return False
        return wrap_bool(tm.Eq(self.t, S(o)))

    def __ne__(self, o):
        if not self._ok(o):
            return True
        return wrap_bool(tm.Ne(self.t, S(o)))

    def __lt__(self, o):
        return wrap_bool(tm.StrLt(self.t, S(o)))

    def __le__(self, o):
        return wrap_bool(tm.StrLe(self.t, S(o)))

    def __gt__(self, o):
        return wrap_bool(tm.StrLt(S(o), self.t))

    def __ge__(self, o):
        return wrap_bool(tm.StrLe(S(o), self.t))

    def __contains__(self, o):
        return wrap_bool(tm.Contains(self.t, S(o)))

    def startswith(self, p):
        if isinstance(p, tuple):
            return wrap_bool(tm.Or(*[tm.PrefixOf(S(q), self.t) for q in p]))
        return wrap_bool(tm.PrefixOf(S(p), self.t))

    def endswith(self, p):
        if isinstance(p, tuple):
            return wrap_bool(tm.Or(*[tm.SuffixOf(S(q), self.t) for q in p]))
        return wrap_bool(tm.SuffixOf(S(p), self.t))

    def find(self, sub, start=0):
        return wrap_int(tm.IndexOf(self.t, S(sub), I(start)))

    def __len__(self):
        raise Unsupported("len() of a symbolic string must go through the len override")

    def __iter__(self):
        raise Unsupported("iteration over a symbolic string")

    def sym_len(self):
        return wrap_int(tm.Len(self.t))

    def __getitem__(self, k):
        n = tm.Len(self.t)
        if isinstance(k, slice):
            if k.step not in (None, 1):
                raise Unsupported("slice step")
            lo = _norm_index(n, k.start, tm.mk_int(0))
            hi = _norm_index(n, k.stop, n)
            return self._wrap(tm.Substr(self.t, lo, tm.Max(tm.Sub(hi, lo), tm.mk_int(0))))
        it = I(k)
        c = cur()
        if c.fork(tm.Or(tm.Ge(it, n), tm.Lt(it, tm.Neg(n)))):
            raise IndexError("string index out of range")
        pos = tm.Ite(tm.Ge(it, tm.mk_int(0)), it, tm.Add(n, it))
        return self._index_result(tm.At(self.t, pos))


class SymStr(_SymSeqStr):
    __slots__ = ()
    _pytype = str

    def _index_result(self, t):
        return wrap_str(t)

    def encode(self, encoding="utf-8", errors="strict"):
        if encoding.lower().replace("_", "-") not in ("utf-8", "utf8"):
            raise Unsupported("encode: only utf-8")
        return wrap_bytes(utf8(self.t))

    def removeprefix(self, p):
        pt = S(p)
        return wrap_str(tm.Ite(tm.PrefixOf(pt, self.t),
                               tm.Substr(self.t, tm.Len(pt), tm.Len(self.t)), self.t))

    def removesuffix(self, p):
        pt = S(p)
        return wrap_str(tm.Ite(tm.SuffixOf(pt, self.t),
                               tm.Substr(self.t, tm.mk_int(0), tm.Sub(tm.Len(self.t), tm.Len(pt))),
                               self.t))

    def replace(self, old, new, count=-1):
        if count != -1:
            raise Unsupported("str.replace with count")
        return wrap_str(tm.ReplaceAll(self.t, S(old), S(new)))

    def split(self, sep=None, maxsplit=-1):
        if sep is None or maxsplit != 1:
            raise Unsupported("str.split: only split(sep, maxsplit=1)")
        st = S(sep)
        idx = tm.IndexOf(self.t, st, tm.mk_int(0))
        if cur().fork(tm.Lt(idx, tm.mk_int(0))):
            return [self]
        n = tm.Len(self.t)
        return [wrap_str(tm.Substr(self.t, tm.mk_int(0), idx)),
                wrap_str(tm.Substr(self.t, tm.Add(idx, tm.Len(st)), n))]

    def __fspath__(self):
        raise Unsupported("os.fspath on a symbolic string must go through the override")

    def __str__(self):
        raise Unsupported("str() of a symbolic string must go through the override")


SymStr._wrap = staticmethod(wrap_str)


class SymBytes(_SymSeqStr):
    __slots__ = ()
    _pytype = (bytes, bytearray)

    def _ok(self, o):
        return isinstance(o, (SymBytes, bytes, bytearray))

    def _index_result(self, t):
        return wrap_int(tm.ToCode(t))

    def decode(self, encoding="utf-8", errors="strict"):
        raise Unsupported("bytes.decode")


SymBytes._wrap = staticmethod(wrap_bytes)


def utf8(t: T) -> T:
    """UTF-8 as an uninterpreted injection that preserves (absence of) NUL; ASCII literal fold."""
    if t.is_lit:
        v = tm.litval(t)
        try:
            return tm.mk_bytes(v.encode("utf-8"))
        except UnicodeEncodeError:
            pass
    c = cur()
    f = c.decls.fun("utf8", [STR], STR)
    g = c.decls.fun("unutf8", [STR], STR)
    r = f(t)
    nul = tm.mk_str("\0")
    c.pc.append(tm.And(tm.Eq(g(r), t), tm.Iff(tm.Contains(r, nul), tm.Contains(t, nul)),
                       tm.Iff(tm.Eq(r, tm.mk_str("")), tm.Eq(t, tm.mk_str("")))))
    return r


# --------------------------------------------------------------------------- None / unions


class SymOpt(SymBase):
    """Either None or a payload; resolved by a decision when inspected."""

    __slots__ = ("isnone", "payload")

    def __init__(self, isnone: T, payload):
        self.isnone = isnone
        self.payload = payload

    def resolve(self):
        if cur().fork(self.isnone):
            self.isnone = tm.TRUE
            return None
        self.isnone = tm.FALSE
        return self.payload

    def __repr__(self):
        return f"SymOpt({self.isnone.s}, {self.payload!r})"

    def __eq__(self, o):
        o = o
        if o is None:
            return wrap_bool(self.isnone)
        if isinstance(o, SymOpt):
            inner = sym_eq(self.payload, o.payload)
            return wrap_bool(tm.Or(tm.And(self.isnone, o.isnone),
                                   tm.And(tm.Not(self.isnone), tm.Not(o.isnone), B(inner))))
        return wrap_bool(tm.And(tm.Not(self.isnone), B(sym_eq(self.payload, o))))

    def __ne__(self, o):
        r = self.__eq__(o)
        return (not r) if isinstance(r, bool) else ~r

    def __getattr__(self, name):
        if name.startswith("__") and name.endswith("__"):
            raise AttributeError(name)
        v = self.resolve()
        return getattr(v, name)

    def __hash__(self):
        return hash(self.resolve())

    # operators act on the resolved value
    def __add__(self, o):
        return self.resolve() + o

    def __radd__(self, o):
        return o + self.resolve()

    def __getitem__(self, k):
        return self.resolve()[k]

    def __lt__(self, o):
        return self.resolve() < o

    def __le__(self, o):
        return self.resolve() <= o

    def __gt__(self, o):
        return self.resolve() > o

    def __ge__(self, o):
        return self.resolve() >= o


def resolve(x):
    while isinstance(x, SymOpt):
        x = x.resolve()
    return x


def sym_eq_val(a, b):
    """Structural equality of two stored values (None / optional / record / scalar) as a term-valued bool."""
    if isinstance(a, SymOpt) or isinstance(b, SymOpt) or a is None or b is None:
        an = a.isnone if isinstance(a, SymOpt) else tm.mk_bool(a is None)
        bn = b.isnone if isinstance(b, SymOpt) else tm.mk_bool(b is None)
        ap = a.payload if isinstance(a, SymOpt) else a
        bp = b.payload if isinstance(b, SymOpt) else b
        inner = tm.TRUE if ap is None or bp is None else B(sym_eq_val(ap, bp))
        return wrap_bool(tm.Or(tm.And(an, bn), tm.And(tm.Not(an), tm.Not(bn), inner)))
    if type(a).__name__ == "Unknown" or type(b).__name__ == "Unknown":
        return True  # untracked fields are not compared
    if isinstance(a, SymObj) and isinstance(b, SymObj):
        ts = [B(sym_eq_val(a._fields[k], b._fields[k])) for k in a._fields if k in b._fields
              and not isinstance(a._fields[k], SymObj) or (k in b._fields and isinstance(a._fields[k], SymObj)
                                                           and a._fields[k]._frozen)]
        return wrap_bool(tm.And(*ts))
    r = a == b
    return False if r is NotImplemented else r


def sym_eq(a, b):
    """Python `==` on possibly symbolic values, never forcing a decision."""
    r = a == b
    if r is NotImplemented:
        return False
    return r


def is_(a, b):
    """`a is b` for the transformed code."""
    # an optional compared with None inside a speculative evaluation (no decisions there): a term
    if CUR is not None and CUR.nofork:
        if b is None and isinstance(a, SymOpt):
            return wrap_bool(a.isnone)
        if a is None and isinstance(b, SymOpt):
            return wrap_bool(b.isnone)
    if b is None and hasattr(type(a), "__symisnone__"):
        return wrap_bool(a.__symisnone__())
    if a is None and hasattr(type(b), "__symisnone__"):
        return wrap_bool(b.__symisnone__())
    if isinstance(a, SymOpt):
        a = resolve(a)
    if isinstance(b, SymOpt):
        b = resolve(b)
    if a is None or b is None:
        return a is b
    if isinstance(a, SymEnum) or isinstance(b, SymEnum):
        return a == b if isinstance(a, SymEnum) else b == a
    if isinstance(a, SymBool) or isinstance(b, SymBool):
        if isinstance(a, (bool, SymBool)) and isinstance(b, (bool, SymBool)):
            return wrap_bool(tm.Iff(B(a), B(b)))
        return False
    if isinstance(a, SymRef) and isinstance(b, SymRef):
        return a.same_as(b)
    if hasattr(type(a), "__symid__") and hasattr(type(b), "__symid__"):
        return wrap_bool(tm.Eq(a.__symid__(), b.__symid__()))
    return a is b


# --------------------------------------------------------------------------- objects


class SymRef(SymBase):
    """Base of heap objects with identity."""

    __slots__ = ()

    def same_as(self, other):
        return self is other


class SymObj(SymRef):
    """A mutable object given by its attributes.

    `_cls` is the real class (method lookup uses its MRO through `_methods`, a callback
    installed by the engine), `_fields` the current attribute values.
    """

    def __init__(self, cls, fields, name=None, frozen=False, eq_fields=None):
        d = object.__getattribute__(self, "__dict__")
        d["_cls"] = cls
        d["_fields"] = dict(fields)
        d["_name"] = name or getattr(cls, "__name__", str(cls))
        d["_frozen"] = frozen
        d["_eq_fields"] = eq_fields

    def __repr__(self):
        return f"<{self._name} {self._fields}>"

    @property
    def __class__(self):
        d = object.__getattribute__(self, "__dict__")
        return CLASS_WRAP(d["_cls"]) if CLASS_WRAP is not None else d["_cls"]

    def __getattr__(self, name):
        d = object.__getattribute__(self, "__dict__")
        f = d["_fields"]
        if name in f:
            return f[name]
        hook = METHOD_HOOK
        if hook is not None:
            m = hook(self, name)
            if m is not NotImplemented:
                return m
        raise Unsupported(f"attribute {name!r} of symbolic {d['_name']} is not declared")

    def __setattr__(self, name, value):
        d = object.__getattribute__(self, "__dict__")
        if d["_frozen"]:
            raise AttributeError("frozen instance")
        d["_fields"][name] = value
        c = CUR
        if c is not None:
            c.writes.append((self, name))

    def __eq__(self, o):
        d = object.__getattribute__(self, "__dict__")
        eqf = d["_eq_fields"]
        if eqf is None:
            return self is o
        if not isinstance(o, SymObj) or o._eq_fields != eqf:
            return False
        ts = [B(sym_eq(d["_fields"][k], o._fields[k])) for k in eqf]
        return wrap_bool(tm.And(*ts))

    def __ne__(self, o):
        r = self.__eq__(o)
        return (not r) if isinstance(r, bool) else ~r

    __hash__ = object.__hash__


CLASS_WRAP = None  # set by the engine: real class -> object the code sees as `obj.__class__`
METHOD_HOOK = None  # set by the engine: (obj, name) -> bound callable or NotImplemented


# --------------------------------------------------------------------------- collections


def _count_step(has: T, kt: T, add: bool, ksort: str):
    """Definitional instance of the cardinality function for one insertion: count(store(h, k, true)) is
    count(h) plus one unless k was present; count of the empty set is zero."""
    c = CUR
    if c is None:
        return
    cnt = c.decls.fun("count_" + ksort, [has.sort], INT)
    new = tm.Store(has, kt, tm.TRUE if add else tm.FALSE)
    was = tm.Select(has, kt, BOOL)
    if add:
        c.pc.append(tm.Eq(cnt(new), tm.Ite(was, cnt(has), tm.Add(cnt(has), tm.mk_int(1)))))
    else:
        c.pc.append(tm.Eq(cnt(new), tm.Ite(was, tm.Sub(cnt(has), tm.mk_int(1)), cnt(has))))
    c.pc.append(tm.Ge(cnt(has), tm.mk_int(0)))
    c.pc.append(tm.Eq(cnt(tm.ConstArray(has.sort, tm.FALSE)), tm.mk_int(0)))


class SymSeq(SymBase):
    """An immutable sequence of unknown length: element function and length term."""

    def __init__(self, elem, length: T, facts=None, name="seq"):
        self.elem = elem  # T(Int) -> python/proxy value
        self.length = length
        self.name = name

    def sym_len(self):
        return wrap_int(self.length)

    def __snapshot__(self):
        """The sequence as it is now (append and pop replace the state of the original)."""
        q = SymSeq(self.elem, self.length, name=self.name)
        spec = getattr(self, "spec", None)
        state = getattr(self, "state", None)
        if spec is not None and state is not None:
            q.spec, q.state = spec, state
            q.elem = lambda i, st=state: spec.val.arr_select(st, i)
        for extra in ("sorted", "container", "cursor", "ids", "idx", "parts", "source"):
            if hasattr(self, extra):
                setattr(q, extra, getattr(self, extra))
        return q

    def append(self, v):
        """list.append for array-backed sequences (those made by types.SeqOf)."""
        spec = getattr(self, "spec", None)
        if spec is None or getattr(self, "state", None) is None:
            raise Unsupported("append to a symbolic sequence that is not array-backed")
        self.state = spec.val.arr_store(self.state, self.length, v)
        self.length = tm.Add(self.length, tm.mk_int(1))
        st = self
        self.elem = lambda i: spec.val.arr_select(st.state, i)
        c = CUR
        if c is not None:
            c.writes.append((self, "[]"))

    def sort(self, *, key=None, reverse=False):
        """list.sort: the elements are permuted in place (the order itself is not modelled)."""
        c = cur()
        perm = c.fresh(c.fresh_name("perm"), tm.arr(INT, INT))
        inner = self.elem
        n = self.length

        def pelem(i):
            j = tm.Select(perm, i, INT)
            cur().pc.append(tm.And(tm.Le(tm.mk_int(0), j), tm.Lt(j, n)))
            return inner(j)

        self.elem = pelem
        c.writes.append((self, "[]"))

    def pop(self, index=-1):
        if index != -1:
            raise Unsupported("list.pop(i) on a symbolic sequence")
        c = cur()
        if c.fork(tm.Le(self.length, tm.mk_int(0))):
            raise IndexError("pop from empty list")
        self.length = tm.Sub(self.length, tm.mk_int(1))
        c.writes.append((self, "[]"))
        return self.elem(self.length)

    def __getitem__(self, k):
        if isinstance(k, slice):
            raise Unsupported("slice of symbolic sequence")
        it = I(k)
        c = cur()
        if it.is_lit and tm.litval(it) < 0:
            it = tm.Add(self.length, it)
        if c.fork(tm.Or(tm.Lt(it, tm.mk_int(0)), tm.Ge(it, self.length))):
            raise IndexError("sequence index out of range")
        return self.elem(it)

    def __iter__(self):
        raise Unsupported("native iteration over a symbolic sequence (loop transform missing)")

    def __len__(self):
        raise Unsupported("len() of a symbolic sequence must go through the len override")

    def __bool__(self):
        return cur().fork(tm.Gt(self.length, tm.mk_int(0)))


class SymMap(SymBase):
    """A finite map with symbolic key set.

    has:   Array K Bool
    get:   key term -> python/proxy value (built from per-field arrays by the factory)
    Writes go through `store` closures supplied by the factory.
    """

    def __init__(self, ksort, has: T, getter, setter, kwrap, kterm, name="map", fresh_like=None):
        self.ksort = ksort
        self.has = has
        self.getter = getter  # (state, key T) -> value
        self.setter = setter  # (state, key T, value) -> new state
        self.state = None
        self.kwrap = kwrap
        self.kterm = kterm
        self.name = name
        self.fresh_like = fresh_like
        self.value_invariant = None  # holds for every stored value (only for maps received as input)
        self.point_facts = []  # definitional facts kt -> T, instantiated at every accessed key

    def _touch(self, kt):
        for f in self.point_facts:
            cur().pc.append(f(kt))

    def _val(self, key):
        kt = self.kterm(key)
        self._touch(kt)
        v = self.getter(self.state, kt)
        if self.value_invariant is not None:
            cur().pc.append(tm.Implies(tm.Select(self.has, kt, BOOL), B(self.value_invariant(v))))
        return v

    def copy_shallow(self):
        m = SymMap(self.ksort, self.has, self.getter, self.setter, self.kwrap, self.kterm,
                   self.name, self.fresh_like)
        m.state = self.state
        m.value_invariant = self.value_invariant
        m.point_facts = list(self.point_facts)
        return m

    def contains_t(self, key) -> T:
        kt = self.kterm(key)
        self._touch(kt)
        return tm.Select(self.has, kt, BOOL)

    def clear(self):
        self.has = tm.ConstArray(self.has.sort, tm.FALSE)
        self.point_facts = []
        self.value_invariant = None
        c = CUR
        if c is not None:
            c.writes.append((self, "[]"))

    def update(self, other=(), **kw):
        """dict.update: with a symbolic map the result is a fresh map defined pointwise."""
        if kw:
            raise Unsupported("dict.update with keyword arguments")
        other = resolve(other)
        if isinstance(other, dict):
            for k, v in other.items():
                self[k] = v
            return
        if not isinstance(other, SymMap):
            raise Unsupported("dict.update with a non-map argument")
        c = cur()
        old = self.copy_shallow()
        oth = other.copy_shallow()
        self.has = c.fresh(c.fresh_name(self.name + ".upd.has"), self.has.sort)
        self.state = self.spec.val.arr_fresh(c.fresh_name(self.name + ".upd.val"), self.ksort)
        self.value_invariant = None
        new = self
        spec = self.spec

        def fact(kt, old=old, oth=oth, new_has=self.has, new_state=self.state):
            in_o = tm.Select(oth.has, kt, BOOL)
            in_s = tm.Select(old.has, kt, BOOL)
            for f in old.point_facts + oth.point_facts:
                cur().pc.append(f(kt))
            nv = spec.val.arr_select(new_state, kt)
            ov = spec.val.arr_select(oth.state, kt)
            sv = spec.val.arr_select(old.state, kt)
            return tm.And(tm.Iff(tm.Select(new_has, kt, BOOL), tm.Or(in_o, in_s)),
                          tm.Implies(in_o, B(sym_eq_val(nv, ov))),
                          tm.Implies(tm.And(tm.Not(in_o), in_s), B(sym_eq_val(nv, sv))))

        self.point_facts = [fact]
        c.writes.append((self, "[]"))
        c.event("map.update", target=self, other=oth, before=old)

    def __contains__(self, key):
        return wrap_bool(self.contains_t(key))

    def __getitem__(self, key):
        c = cur()
        if not c.fork(self.contains_t(key)):
            raise KeyError(key)
        return self._val(key)

    def get(self, key, default=None):
        c = cur()
        if not c.fork(self.contains_t(key)):
            return default
        return self._val(key)

    def value_at(self, key):
        """The value stored under key, without membership decision (spec use)."""
        return self._val(key)

    def __setitem__(self, key, value):
        self.value_invariant = None
        kt = self.kterm(key)
        _count_step(self.has, kt, True, self.ksort)
        self.has = tm.Store(self.has, kt, tm.TRUE)
        self.state = self.setter(self.state, kt, value)
        c = CUR
        if c is not None:
            c.writes.append((self, "[]"))

    def __delitem__(self, key):
        c = cur()
        if not c.fork(self.contains_t(key)):
            raise KeyError(key)
        self.has = tm.Store(self.has, self.kterm(key), tm.FALSE)
        c.writes.append((self, "[]"))

    def pop(self, key, *default):
        c = cur()
        if not c.fork(self.contains_t(key)):
            if default:
                c.event("map.pop", target=self, key=key, present=tm.FALSE, value=default[0])
                return default[0]
            raise KeyError(key)
        v = self._val(key)
        self.has = tm.Store(self.has, self.kterm(key), tm.FALSE)
        c.writes.append((self, "[]"))
        c.event("map.pop", target=self, key=key, present=tm.TRUE, value=v)
        return v

    def popitem(self):
        """Remove and return some (key, value) pair; KeyError when empty."""
        c = cur()
        if not c.fork(self.__symtruth__()):
            raise KeyError("popitem(): dictionary is empty")
        kt = c.fresh(c.fresh_name(self.name + ".popitem.key"), self.ksort)
        c.pc.append(tm.Select(self.has, kt, BOOL))
        k = self.kwrap(kt)
        v = self._val(k)
        self.has = tm.Store(self.has, kt, tm.FALSE)
        c.writes.append((self, "[]"))
        c.event("map.popitem", target=self, key=k, value=v)
        return k, v

    def __symtruth__(self):
        """A map is true iff it has at least one key (count > 0)."""
        c = cur()
        hs = self.has.sort
        cnt = c.decls.fun("count_" + self.ksort, [hs], INT)(self.has)
        c.pc.append(tm.Ge(cnt, tm.mk_int(0)))
        # definitional instance: an empty map (constant false array) has count 0
        empty = tm.ConstArray(hs, tm.FALSE)
        c.pc.append(tm.Eq(c.decls.fun("count_" + self.ksort, [hs], INT)(empty), tm.mk_int(0)))
        return tm.Gt(cnt, tm.mk_int(0))

    def __bool__(self):
        return cur().fork(self.__symtruth__())

    def __iter__(self):
        raise Unsupported("native iteration over a symbolic map (loop transform missing)")

    def __len__(self):
        raise Unsupported("len() of a symbolic map")

    def __eq__(self, o):
        raise Unsupported("== on symbolic maps; use spec.map_eq")

    __hash__ = None


class SymSet(SymBase):
    def __init__(self, ksort, has: T, kterm, kwrap, name="set"):
        self.ksort = ksort
        self.has = has
        self.kterm = kterm
        self.kwrap = kwrap
        self.name = name
        self.elem_invariant = None
        self.point_facts = []

    def contains_t(self, key) -> T:
        kt = self.kterm(key)
        for f in self.point_facts:
            cur().pc.append(f(kt))
        return tm.Select(self.has, kt, BOOL)

    def __contains__(self, key):
        return wrap_bool(self.contains_t(key))

    def clear(self):
        self.has = tm.ConstArray(self.has.sort, tm.FALSE)
        self.point_facts = []
        self.elem_invariant = None
        c = CUR
        if c is not None:
            c.writes.append((self, "[]"))

    def add(self, key):
        self.elem_invariant = None
        _count_step(self.has, self.kterm(key), True, self.ksort)
        self.has = tm.Store(self.has, self.kterm(key), tm.TRUE)
        c = CUR
        if c is not None:
            c.writes.append((self, "[]"))

    def discard(self, key):
        self.has = tm.Store(self.has, self.kterm(key), tm.FALSE)
        c = CUR
        if c is not None:
            c.writes.append((self, "[]"))

    def remove(self, key):
        c = cur()
        if not c.fork(self.contains_t(key)):
            raise KeyError(key)
        self.discard(key)

    def update(self, *others):
        """Set union; with a symbolic sequence the result is an unconstrained superset."""
        for o in others:
            if isinstance(o, (list, tuple, set, frozenset)):
                for x in o:
                    self.add(x)
            else:
                c = cur()
                new = c.fresh(c.fresh_name(self.name + ".updated"), self.has.sort)
                k = c.fresh(c.fresh_name("k"), self.ksort)
                self.has = new
                c.writes.append((self, "[]"))

    def __iter__(self):
        raise Unsupported("native iteration over a symbolic set (loop transform missing)")

    def __len__(self):
        raise Unsupported("len() of a symbolic set")

    def __symtruth__(self):
        """A set is true iff it has at least one element (count > 0)."""
        c = cur()
        hs = self.has.sort
        cnt = c.decls.fun("count_" + self.ksort, [hs], INT)(self.has)
        c.pc.append(tm.Ge(cnt, tm.mk_int(0)))
        empty = tm.ConstArray(hs, tm.FALSE)
        c.pc.append(tm.Eq(c.decls.fun("count_" + self.ksort, [hs], INT)(empty), tm.mk_int(0)))
        return tm.Gt(cnt, tm.mk_int(0))

    def __bool__(self):
        return cur().fork(self.__symtruth__())


# --------------------------------------------------------------------------- opaque values


class SymOpaque(SymBase):
    """A value of an uninterpreted sort: only equality is interpreted (floats, handles)."""

    __slots__ = ("t",)

    def __init__(self, t):
        self.t = t

    def __eq__(self, o):
        if isinstance(o, SymOpaque) and o.t.sort == self.t.sort:
            return wrap_bool(tm.Eq(self.t, o.t))
        return False

    def __ne__(self, o):
        r = self.__eq__(o)
        return (not r) if isinstance(r, bool) else ~r

    def __repr__(self):
        return f"SymOpaque({self.t.s})"

    def __getattr__(self, name):
        # an attribute of a value nobody modelled: another opaque value, a function of this one (it can be passed on,
        # logged or compared; using it in a decision or in arithmetic leaves the subset)
        if name.startswith("__") and name.endswith("__"):
            raise AttributeError(name)
        c = cur()
        c.decls.sort("Attr")
        f = c.decls.fun(f"attr.{name}.{self.t.sort}", [self.t.sort], "Attr")
        return SymOpaque(f(self.t))

    def __bool__(self):
        raise Unsupported("truth value of an opaque value")
