"""Contracts, modular symbolic execution of the real functions, obligation generation."""

from __future__ import annotations

import ast

import enum
import inspect
import os
import time
import traceback
import types as pytypes

from . import extract, sym, vcrt
from . import terms as tm
from . import types as ty
from .sym import B, Ctx, Infeasible, PathEnd, SymMap, SymObj, SymSet, Unsupported
from .vcrt import LoopSpec, Namespace  # noqa: F401  (re-exported for contracts)

REGISTRY: dict[str, "Contract"] = {}
CLASS_SPECS = ty.CLASS_SPECS  # real class -> Rec spec of its value objects
GLOBAL_OVERRIDES: dict[str, dict[str, object]] = {}  # relpath -> {global name: replacement}
INLINE_DENY: set[str] = set()


class ContractError(BaseException):
    """A contract or spec function is itself broken (checker error, never a violation)."""


class Contract:
    def __init__(self, qual, **kw):
        self.qual = qual  # "stepup/core/hash.py::HashWords.update"
        self.relpath, self.name = qual.split("::")
        self.props = kw.pop("props", [])
        self.args = kw.pop("args", {})
        self.requires = kw.pop("requires", None)
        self.ensures = kw.pop("ensures", None)
        self.ensures_named = kw.pop("ensures_named", None)  # dict clause name -> lambda
        self.raises = kw.pop("raises", {})  # exc class -> iff condition
        self.may_raise = kw.pop("may_raise", {})  # exc class -> necessary condition (or None)
        self.modifies = kw.pop("modifies", [])  # list of "arg.field[.field]" paths
        self.loops = kw.pop("loops", {})
        self.events = kw.pop("events", {})  # kind -> guard lambda(e, **args)
        self.env = kw.pop("env", {})  # global overrides while verifying this function
        self.result = kw.pop("result", None)  # Spec of the result when used as a stub
        self.setup = kw.pop("setup", None)  # callable(args dict) run after argument creation
        self.finish = kw.pop("finish", None)  # callable(ctx, outcome, args, old): extra obligations
        self.verify = kw.pop("verify", True)  # False: assumed (trusted) contract
        self.note = kw.pop("note", "")
        self.await_hook = kw.pop("await_hook", None)
        self.max_paths = kw.pop("max_paths", 4000)
        self.ghost = kw.pop("ghost", {})  # name -> Spec: universally quantified ghost constants of the contract
        self.smt_options = kw.pop("smt_options", {})  # merged into the meta of every obligation of the function
        self.returns = kw.pop("returns", None)  # the exact result as a function of the arguments (must follow from ensures)
        self.impl = kw.pop("impl", None)  # python stand-in executed by callers (assumed contract given as code)
        self.inline = kw.pop("inline", False)  # callers execute the body; on_inline(args, result) records ghosts
        self.on_inline = kw.pop("on_inline", None)
        # callee name -> lambda(args of the call, ghost of this contract) -> dict: the instance of the callee's
        # (universally quantified) ghost constants this function's proof uses; default: an arbitrary fresh instance
        self.instantiate = kw.pop("instantiate", {})
        # a postcondition that callers assume but that is NOT proved when the function is verified (an effect on a
        # ghost view that the proof of the function does not reach); reported as an assumption
        self.assume_post = kw.pop("assume_post", None)
        # a condition on the state in which the function is entered that is assumed when the function is verified but
        # is NOT an obligation of its call sites: a global invariant of a data structure (every operation is entered
        # with it and proved to re-establish it) or a scoping restriction of the proof; reported as an assumption
        self.entry = kw.pop("entry", None)
        # property id -> list of obligation-name fragments: the function is also verified for that property, but only
        # the obligations whose name contains one of the fragments are counted and reported under it (a call-site
        # precondition that carries another property through this function)
        self.partial_props = kw.pop("partial_props", {})
        # exc class -> necessary condition (or None), like may_raise, but only for the function's own verification:
        # call sites do not branch on it (an internal consistency error aborts the request; the callers' contracts say
        # nothing about such a path, exactly as when the callee's contract was an assumed one without it)
        self.may_raise_internal = kw.pop("may_raise_internal", {})
        # obligation-name fragments that are counted only under the properties of partial_props that name them, not
        # under the contract's own properties
        self.only_partial = tuple(kw.pop("only_partial", ()))
        if kw:
            raise TypeError(f"unknown contract fields {list(kw)}")


def contract(qual, **kw):
    def deco(cls):
        d = {k: v for k, v in vars(cls).items() if not k.startswith("__")}
        for k, v in list(d.items()):
            if isinstance(v, staticmethod):
                d[k] = v.__func__
        d.update(kw)
        c = Contract(qual, **d)
        if qual in REGISTRY:
            raise ValueError(f"two contracts for {qual}: callers would see whichever module was imported last")
        REGISTRY[qual] = c
        return c

    return deco


def call_with(fn, avail: dict):
    """Call a contract lambda with the subset of `avail` it names."""
    if fn is None:
        return True
    sig = inspect.signature(fn)
    kwargs = {}
    for p in sig.parameters.values():
        if p.kind is p.VAR_KEYWORD:
            return _untilde(fn(**avail))
        if p.name in avail:
            kwargs[p.name] = avail[p.name]
        elif p.default is p.empty:
            raise Unsupported(f"contract clause needs {p.name!r}, which is not available")
    return _untilde(fn(**kwargs))


def _untilde(r):
    """`~x` in a contract clause means logical negation; on a value that folded to a Python bool it yields -1 / -2
    (both true as conditions).  Read them as what was meant."""
    if type(r) is int and r in (-1, -2):
        return r == -1
    return r


# --------------------------------------------------------------------------- snapshots


def snapshot(v, memo=None):
    memo = {} if memo is None else memo
    if id(v) in memo:
        return memo[id(v)]
    if isinstance(v, SymObj):
        o = SymObj(v._cls, {}, name=v._name, frozen=True, eq_fields=v._eq_fields)
        memo[id(v)] = o
        o.__dict__["_fields"] = {k: snapshot(x, memo) for k, x in v._fields.items()}
        o.__dict__["_orig"] = v
        return o
    if isinstance(v, SymMap):
        m = v.copy_shallow()
        m.spec = getattr(v, "spec", None)
        memo[id(v)] = m
        return m
    if isinstance(v, SymSet):
        s = SymSet(v.ksort, v.has, v.kterm, v.kwrap, v.name)
        s.spec = getattr(v, "spec", None)
        memo[id(v)] = s
        return s
    if hasattr(v, "__snapshot__"):
        s = v.__snapshot__()
        memo[id(v)] = s
        return s
    if isinstance(v, list):
        return [snapshot(x, memo) for x in v]
    if isinstance(v, dict):
        return {k: snapshot(x, memo) for k, x in v.items()}
    return v


# --------------------------------------------------------------------------- repo wrappers


def _relpath_of_module(modname: str):
    return modname.replace(".", "/") + ".py"


class RepoFn:
    """A repository function as seen from transformed code: contract stub or inlined body."""

    def __init__(self, relpath, qual, real):
        self.relpath = relpath
        self.qual = qual
        self.real = real
        self.__name__ = qual.split(".")[-1]

    @property
    def key(self):
        return f"{self.relpath}::{self.qual}"

    def __call__(self, *args, **kwargs):
        return dispatch_call(self.key, self.real, args, kwargs)

    def __get__(self, obj, objtype=None):
        if obj is None:
            return self
        return pytypes.MethodType(self, obj)


class RepoClass:
    """A repository class as seen from transformed code."""

    def __init__(self, real):
        self.__vc_real__ = real
        self.__name__ = real.__name__

    def __repr__(self):
        return f"<RepoClass {self.__name__}>"

    def __syminstance__(self, cls):
        # isinstance(<class object>, type) and the like: decided on the real class
        return isinstance(self.__vc_real__, cls) if isinstance(cls, type) else False

    def __call__(self, *args, **kwargs):
        return construct(self.__vc_real__, args, kwargs)

    def __getattr__(self, name):
        real = self.__vc_real__
        for k in real.__mro__:
            if name in k.__dict__:
                raw = k.__dict__[name]
                relpath = _relpath_of_module(k.__module__)
                if isinstance(raw, classmethod):
                    fn = RepoFn(relpath, f"{k.__name__}.{name}", raw.__func__)
                    return pytypes.MethodType(fn, self)
                if isinstance(raw, staticmethod):
                    return RepoFn(relpath, f"{k.__name__}.{name}", raw.__func__)
                if isinstance(raw, pytypes.FunctionType):
                    return RepoFn(relpath, f"{k.__name__}.{name}", raw)
                return raw
        raise AttributeError(name)


def _is_repo_module(modname):
    return isinstance(modname, str) and (modname == "stepup" or modname.startswith("stepup."))


def wrap_global(value):
    # a memoising wrapper (functools.lru_cache / cache) around a repository function is transparent: the function's
    # own body is what is executed and what its contract describes
    inner = getattr(value, "__wrapped__", None)
    if inner is not None and hasattr(value, "cache_info") and isinstance(inner, pytypes.FunctionType):
        value = inner if memo_is_transparent(inner) else _OpaqueMemo(inner)
    if isinstance(value, pytypes.FunctionType) and _is_repo_module(value.__module__):
        return RepoFn(_relpath_of_module(value.__module__), value.__qualname__, value)
    if isinstance(value, type) and _is_repo_module(value.__module__):
        if issubclass(value, enum.IntEnum):
            return vcrt.EnumProxy(value)
        if issubclass(value, (BaseException, enum.Enum)):
            return value
        return RepoClass(value)
    if isinstance(value, pytypes.ModuleType) and value.__name__ in _MODULE_PROXIES:
        return _MODULE_PROXIES[value.__name__](value)
    return value


def memo_is_transparent(fn) -> bool:
    """A memoised function returns, for arguments that compare equal to earlier ones, the earlier result.  That is
    the function's own result only if equal arguments are indistinguishable: str and bytes parameters.  An object
    whose == leaves fields out (attrs eq=False), or 1 == True == 1.0, is not."""
    import inspect

    try:
        params = list(inspect.signature(fn).parameters.values())
    except (TypeError, ValueError):
        return False
    ok = {"str", "bytes", str, bytes}
    return bool(params) and all(p.kind in (p.POSITIONAL_ONLY, p.POSITIONAL_OR_KEYWORD, p.KEYWORD_ONLY)
                                and p.annotation in ok for p in params)


class _OpaqueMemo:
    def __init__(self, fn):
        self.fn = fn

    def __call__(self, *a, **k):
        raise Unsupported(f"{self.fn.__qualname__} is memoised on arguments whose equality does not determine the "
                          "result (only str / bytes parameters are read through the cache)")

    def __get__(self, obj, objtype=None):
        return self


class _StatModule:
    """The `stat` module on symbolic modes: the S_IS* tests and S_IMODE / S_IFMT are functions of the mode (not
    interpreted: which bits they read is not modelled); everything else is the real module."""

    def __init__(self, real):
        self._real = real

    def __getattr__(self, name):
        real = getattr(self._real, name)
        if not callable(real) or not (name.startswith("S_IS") or name in ("S_IMODE", "S_IFMT")):
            return real

        def f(mode):
            if not isinstance(mode, sym.SymInt):
                return real(mode)
            c = sym.cur()
            if name.startswith("S_IS"):
                return sym.SymBool(c.decls.fun("stat." + name, [tm.INT], tm.BOOL)(sym.I(mode)))
            return sym.SymInt(c.decls.fun("stat." + name, [tm.INT], tm.INT)(sym.I(mode)))

        return f


class _AttrsModule:
    """The `attrs` module: evolve() of an object built by construct() is a new object of the same class with the
    given fields replaced (through construct, so that validators / post-init run as for any construction)."""

    def __init__(self, real):
        self._real = real

    def __getattr__(self, name):
        return getattr(self._real, name)

    def evolve(self, inst, **changes):
        if not isinstance(inst, SymObj):
            return self._real.evolve(inst, **changes)
        fields = attrs_fields(inst._cls)
        if fields is None:
            raise Unsupported("attrs.evolve of an object whose class is not an attrs class")
        kw = {f.alias: inst._fields[f.name] for f in fields if f.init}
        unknown = set(changes) - set(kw)
        if unknown:
            raise TypeError(f"evolve() got unexpected field(s) {sorted(unknown)}")
        kw.update(changes)
        return construct(inst._cls, (), kw)


_MODULE_PROXIES = {"stat": _StatModule, "attrs": _AttrsModule, "attr": _AttrsModule}


def attrs_fields(cls):
    try:
        import attrs

        return attrs.fields(cls)
    except Exception:  # noqa: BLE001
        return None


def construct(real, args, kwargs):
    """`Cls(...)` in transformed code."""
    c = sym.cur()
    spec = CLASS_SPECS.get(real)
    fields = attrs_fields(real)
    if fields is not None:
        import attrs

        names = [f.name for f in fields if f.init]
        vals = {}
        params = []
        for f in fields:
            if not f.init:
                continue
            alias = f.alias
            params.append((f, alias))
        it = iter(args)
        for f, alias in params:
            try:
                vals[f.name] = next(it)
                continue
            except StopIteration:
                pass
            if alias in kwargs:
                vals[f.name] = kwargs[alias]
            elif f.default is not attrs.NOTHING:
                d = f.default
                if isinstance(d, attrs.Factory):  # type: ignore[arg-type]
                    if d.takes_self:
                        raise Unsupported("attrs factory with takes_self")
                    vals[f.name] = d.factory()
                else:
                    vals[f.name] = d
            else:
                raise TypeError(f"{real.__name__}() missing argument {alias}")
        for f in fields:
            if not f.init:
                d = f.default
                if isinstance(d, attrs.Factory):  # type: ignore[arg-type]
                    fac = d.factory
                    fac = GLOBAL_FACTORIES.get(fac, fac)
                    vals[f.name] = fac()
                elif d is not attrs.NOTHING:
                    vals[f.name] = d
        eq = tuple(f.name for f in fields if f.eq)
        frozen = bool(getattr(real, "__attrs_props__", None) and real.__attrs_props__.is_frozen) \
            if hasattr(real, "__attrs_props__") else _attrs_frozen(real)
        has_eq = "__eq__" in real.__dict__
        o = SymObj(real, vals, name=real.__name__, frozen=False, eq_fields=eq if has_eq else None)
        o.__dict__["_born"] = c.data.get("born", 0) + 1
        c.data["born"] = o.__dict__["_born"]
        post = getattr(real, "__attrs_post_init__", None)
        if post is not None:
            RepoFn(_relpath_of_module(real.__module__), f"{real.__name__}.__attrs_post_init__",
                   post)(o)
        o.__dict__["_frozen"] = frozen
        return o
    init = real.__dict__.get("__init__")
    o = SymObj(real, {}, name=real.__name__)
    o.__dict__["_born"] = c.data.get("born", 0) + 1
    c.data["born"] = o.__dict__["_born"]
    if init is not None:
        RepoFn(_relpath_of_module(real.__module__), f"{real.__name__}.__init__", init)(o, *args, **kwargs)
    return o


def _attrs_frozen(real):
    try:
        import attrs

        return real.__setattr__ is attrs.setters.frozen or getattr(real.__setattr__, "__name__", "") == "_frozen_setattrs"
    except Exception:  # noqa: BLE001
        return False


GLOBAL_FACTORIES: dict = {}


def method_hook(obj: SymObj, name: str):
    cls = obj._cls
    if not isinstance(cls, type):
        return NotImplemented
    for k in cls.__mro__:
        if name in k.__dict__:
            raw = k.__dict__[name]
            if not _is_repo_module(k.__module__):
                return NotImplemented
            relpath = _relpath_of_module(k.__module__)
            qual = f"{k.__name__}.{name}"
            if isinstance(raw, property):
                return RepoFn(relpath, qual, raw.fget)(obj)
            if isinstance(raw, classmethod):
                return pytypes.MethodType(RepoFn(relpath, qual, raw.__func__), RepoClass(cls))
            if isinstance(raw, staticmethod):
                return RepoFn(relpath, qual, raw.__func__)
            if isinstance(raw, pytypes.FunctionType):
                return pytypes.MethodType(RepoFn(relpath, qual, raw), obj)
            if hasattr(type(raw), "__get__"):
                # a slot / data descriptor: an instance field the contract did not declare (returning the descriptor
                # itself would make `if self.field:` silently true)
                return NotImplemented
            return raw
    return NotImplemented


sym.METHOD_HOOK = method_hook
sym.CLASS_WRAP = lambda real: RepoClass(real) if isinstance(real, type) else real


# --------------------------------------------------------------------------- execution of a function


_fn_cache: dict = {}


def exec_globals(relpath: str, loop_specs, extra_env):
    mod = extract.import_module(relpath)
    ns = {}
    for k, v in vars(mod).items():
        ns[k] = wrap_global(v)
    ns.update(vcrt.BUILTIN_OVERRIDES)
    for k, v in GLOBAL_OVERRIDES.get("*", {}).items():
        if k in ns or k in ("logger",):
            ns[k] = v
    ns.update(GLOBAL_OVERRIDES.get(relpath, {}))
    ns.update(extra_env or {})
    ns["__vc__"] = vcrt.RT(loop_specs)
    return ns


def get_transformed(key: str, loops=None, env=None):
    """The transformed python function for `relpath::Qual` (cached per contract use)."""
    ck = (key, id(loops), id(env))
    if ck in _fn_cache:
        return _fn_cache[ck]
    relpath, qual = key.split("::")
    loops = loops or {}
    while_specs = [k for k in loops]
    extra = {k: v.havoc for k, v in loops.items() if getattr(v, "havoc", None)}
    factory, info = extract.transformed_function(relpath, qual, while_specs, extra)
    if info["unsupported"]:
        raise Unsupported(f"{key}: " + "; ".join(info["unsupported"]))
    fn = factory(exec_globals(relpath, loops, env))
    _fn_cache[ck] = (fn, info)
    return fn, info


_RENAME_CACHE: dict = {}


def _contract_of_renamed(key):
    """The contract written for this function under the name it had in the tree the contracts were written against
    (specs/function_shapes.json): a definition without contract, with the recorded shape of a name that no longer
    exists in the same module and class."""
    if key in _RENAME_CACHE:
        return _RENAME_CACHE[key]
    con = None
    try:
        relpath, qual = key.split("::")
        _, node = extract.find_def(relpath, qual)
        shape = extract.shape_of(node) if isinstance(node, (ast.FunctionDef, ast.AsyncFunctionDef)) else None
        scope = qual.rsplit(".", 1)[0] if "." in qual else ""
        for old, sh in extract.shapes().get("functions", {}).items():
            orel, oqual = old.split("::")
            oscope = oqual.rsplit(".", 1)[0] if "." in oqual else ""
            if sh == shape and orel == relpath and oscope == scope and old in REGISTRY and old != key:
                if extract.RENAMED.get(old) == qual or not _exists(orel, oqual):
                    con = REGISTRY[old]
                    extract.RENAMED[old] = qual
                    break
    except (extract.ExtractError, ValueError):
        con = None
    _RENAME_CACHE[key] = con
    return con


def _exists(relpath, qual):
    src, tree = extract.read_module(relpath)
    node = tree
    for part in qual.split("."):
        nxt = [c for c in getattr(node, "body", []) if isinstance(c, (ast.FunctionDef, ast.AsyncFunctionDef, ast.ClassDef)) and c.name == part]
        if not nxt:
            return False
        node = nxt[0]
    return True


def dispatch_call(key, real, args, kwargs):
    c = sym.cur()
    con = REGISTRY.get(key) or _contract_of_renamed(key)
    active = c.data.get("active")
    if con is not None and key != active and con.impl is not None:
        c.data.setdefault("callees", set()).add(con.qual)
        return con.impl(*args, **kwargs)
    if con is not None and key != active and not con.inline:
        return call_contract(con, real, args, kwargs)
    if key in INLINE_DENY:
        raise Unsupported(f"call to {key}, which has neither a contract nor permission to be inlined")
    depth = c.data.get("inline_depth", 0)
    if depth > 12:
        raise Unsupported(f"inlining depth exceeded at {key}")
    fn, _ = get_transformed(key)
    c.data.setdefault("inlined", set()).add(key)
    c.data["inline_depth"] = depth + 1
    c.event("inline", callee=key.split("::")[1], args=args, kwargs=kwargs)
    try:
        r = fn(*args, **kwargs)
        if con is not None and con.inline and con.on_inline is not None and key != active:
            con.on_inline(bind_args(real, args, kwargs), r)
        return r
    finally:
        c.data["inline_depth"] = depth


def bind_args(real, args, kwargs):
    sig = inspect.signature(real)
    ba = sig.bind(*args, **kwargs)
    ba.apply_defaults()
    return dict(ba.arguments)


def havoc_path(root, path: list[str], label):
    """Havoc `root.a.b` in place (root is the object bound to the argument)."""
    c = sym.cur()
    obj = root
    for p in path[:-1]:
        obj = sym.resolve(getattr(obj, p))
    if not path:
        if isinstance(obj, (SymMap, SymSet)):
            vcrt.havoc_container(obj, label)
        elif isinstance(obj, SymObj):
            vcrt.havoc_obj(obj, None, label)
        else:
            raise Unsupported(f"cannot havoc {label}")
        return
    f = path[-1]
    if not isinstance(obj, SymObj):
        raise Unsupported(f"cannot havoc {label}: not an object")
    v = obj._fields.get(f)
    if isinstance(v, (SymMap, SymSet)):
        vcrt.havoc_container(v, label)
    elif isinstance(v, SymObj) and not v._frozen:
        vcrt.havoc_obj(v, None, label)
    elif hasattr(v, "__havoc__"):
        v.__havoc__(label)
    else:
        sp = ty.spec_of_value(v)
        if sp is None:
            raise Unsupported(f"cannot havoc {label} (value {v!r})")
        obj._fields[f] = sp.fresh(c.fresh_name(label))
    c.writes.append((obj, f))


def call_contract(con: Contract, real, args, kwargs):
    c = sym.cur()
    bound = bind_args(real, args, kwargs)
    k = c.counters.get("call:" + con.name, 0)
    c.counters["call:" + con.name] = k + 1
    tag = f"call.{con.name}#{k}"
    c.data.setdefault("callees", set()).add(con.qual)
    avail = dict(bound)
    if con.ghost:
        # ghost constants are universally quantified: the caller gets the instance it names, else an arbitrary one
        g = {n: sp.fresh(c.fresh_name(f"{tag}.ghost.{n}")) for n, sp in con.ghost.items()}
        act = c.data.get("contract")
        inst = getattr(act, "instantiate", {}).get(con.name) if act is not None else None
        if inst is not None:
            g.update(inst(Namespace(bound), c.data.get("ghost")))
        avail["ghost"] = Namespace(g)
    if con.requires is not None:
        c.prove(f"{tag}.pre", call_with(con.requires, avail), kind="pre", callee=con.qual)
    old = Namespace({n: snapshot(v) for n, v in bound.items()})
    avail["old"] = old
    avail["trace"] = None  # the callee's own effects are not visible to its caller
    for exc, cond in con.raises.items():
        cv = call_with(cond, avail)
        if cv:
            raise exc(f"[contract of {con.name}]")
    for exc, cond in con.may_raise.items():
        flag = c.fresh(f"{tag}.raises.{exc.__name__}", tm.BOOL)
        if cond is not None:
            cv = B(call_with(cond, avail))
            if c.fork(tm.And(flag, cv)):
                raise exc(f"[contract of {con.name}]")
        elif c.fork(flag):
            raise exc(f"[contract of {con.name}]")
    for path in con.modifies:
        parts = path.split(".")
        havoc_path(bound[parts[0]], parts[1:], f"{tag}.{path}")
    result = None
    if con.returns is not None:
        result = call_with(con.returns, avail)
    elif con.result is not None:
        rs = con.result(**{k2: v for k2, v in avail.items() if k2 in inspect.signature(con.result).parameters}) \
            if callable(con.result) and not isinstance(con.result, ty.Spec) else con.result
        result = rs.fresh(c.fresh_name(f"{tag}.result")) if isinstance(rs, ty.Spec) else rs
        if hasattr(result, "__dict__") and not isinstance(result, SymObj):
            sym.mark_born(result)
        elif isinstance(result, SymObj) and not result._frozen:
            sym.mark_born(result)
    avail["result"] = result

    def exported(f):
        # a clause about the callee's own effect trace is internal: it is not assumed by callers
        return "trace" not in inspect.signature(f).parameters

    def assume_clause(f):
        v = call_with(f, avail)
        t = B(v)
        if t.is_lit and not tm.litval(t):
            # a postcondition that is literally false for a fresh result means the contract cannot be used as
            # a callee contract as written (it would silently discard the caller's path)
            raise ContractError(f"postcondition of {con.qual} is literally false when used as a callee contract")
        c.assume(v)

    if con.assume_post is not None:
        assume_clause(con.assume_post)
    if con.ensures is not None and exported(con.ensures):
        assume_clause(con.ensures)
    if con.ensures_named:
        for _, f in con.ensures_named.items():
            if exported(f):
                assume_clause(f)
    c.event("call", callee=con.name, args=bound, result=result, old=old)
    return result


def invoke(fn, args: dict):
    """Call fn with the contract's arguments, honouring positional-only, *args and **kwargs parameters."""
    sig = inspect.signature(fn)
    pos, kw = [], {}
    for p in sig.parameters.values():
        if p.name not in args:
            continue
        v = args[p.name]
        if p.kind is p.POSITIONAL_ONLY:
            pos.append(v)
        elif p.kind is p.VAR_POSITIONAL:
            pos.extend(v)
        elif p.kind is p.VAR_KEYWORD:
            kw.update(v)
        else:
            kw[p.name] = v
    r = fn(*pos, **kw)
    if isinstance(r, vcrt.Coro):
        r = r.run()
    return r


class Obligation:
    def __init__(self, name, hyps, goal, decls, meta):
        self.name = name
        self.hyps = hyps
        self.goal = goal
        self.decls = decls
        self.meta = meta
        self.result = None

    def smt(self, getvals=()):
        text = tm.query(self.decls, self.hyps, self.goal, getvals=getvals)
        if self.meta.get("abstract_strings"):
            text = abstract_strings(text)
        return text


def abstract_strings(text: str) -> str:
    """Print a query that uses strings only as opaque values (no str.* operation) over an uninterpreted
    sort: string literals become distinct constants.  Raises if a string operation occurs."""
    import re

    if re.search(r"\(str\.|\(re\.", text):
        return text  # string operations present: keep the string theory
    lits = {}

    def lit(m):
        s = m.group(0)
        if s not in lits:
            lits[s] = f"strlit!{len(lits)}"
        return lits[s]

    body = re.sub(r'"(?:[^"]|"")*"', lit, text)
    body = body.replace("String", "PathS")
    decl = ["(declare-sort PathS 0)"] + [f"(declare-fun {n} () PathS)" for n in lits.values()]
    if len(lits) > 1:
        decl.append("(assert (distinct " + " ".join(lits.values()) + "))")
    head, rest = body.split("\n", 1)
    opts = []
    while rest.startswith("(set-option"):
        o, rest = rest.split("\n", 1)
        opts.append(o)
    return "\n".join([head, *opts, *decl, rest])


class FnReport:
    def __init__(self, con):
        self.con = con
        self.obligations: list[Obligation] = []
        self.paths = 0
        self.failures: list[str] = []  # unsupported constructs, extraction errors
        self.inlined: set[str] = set()
        self.callees: set[str] = set()
        self.seconds = 0.0
        self.outcomes: dict[str, int] = {}


def _check_frame(c: Ctx, con: Contract, args):
    """Writes to pre-existing objects must be within `modifies` (structural check)."""
    allowed = []
    for path in con.modifies:
        parts = path.split(".")
        obj = args.get(parts[0])
        try:
            for p in parts[1:-1]:
                obj = sym.resolve(obj._fields[p])
        except (KeyError, AttributeError):
            continue
        if len(parts) == 1:
            allowed.append((id(obj), None))
        else:
            allowed.append((id(obj), parts[-1]))
            tgt = obj._fields.get(parts[-1]) if isinstance(obj, SymObj) else None
            if tgt is not None:
                allowed.append((id(tgt), None))
    bad = []
    for obj, field in c.writes:
        if vcrt._born(obj) > 0:
            continue
        if (id(obj), field) in allowed or (id(obj), None) in allowed:
            continue
        bad.append(f"{getattr(obj, '_name', getattr(obj, 'name', obj))}.{field}")
    return sorted(set(bad))


def verify_function(con: Contract) -> FnReport:
    rep = FnReport(con)
    t0 = time.time()
    try:
        fn, info = get_transformed(con.qual, con.loops, con.env)
    except (extract.ExtractError, Unsupported) as e:
        rep.failures.append(f"extract: {e}")
        rep.seconds = time.time() - t0
        return rep
    worklist = [[]]
    while worklist:
        prefix = worklist.pop()
        rep.paths += 1
        if rep.paths > con.max_paths:
            rep.failures.append(f"more than {con.max_paths} paths")
            break
        decls = tm.Decls()
        c = Ctx(prefix, worklist, decls, con.name)
        c.data["active"] = con.qual
        c.data["contract"] = con
        sym.CUR = c
        outcome = None
        try:
            args = {}
            for n, sp in con.args.items():
                args[n] = sp.fresh(n) if isinstance(sp, ty.Spec) else sp(args)
            ghost = {n: sp.fresh("ghost." + n) for n, sp in con.ghost.items()}
            c.data["ghost"] = Namespace(ghost)
            if con.setup is not None:
                con.setup(args)
            if con.requires is not None:
                c.assume(call_with(con.requires, dict(args, ghost=c.data["ghost"])))
            if con.entry is not None:
                c.assume(call_with(con.entry, dict(args, ghost=c.data["ghost"])))
            old = Namespace({n: snapshot(v) for n, v in args.items()})
            c.data["old"] = old
            c.data["args"] = args
            c.writes.clear()
            c.await_hook = (lambda: con.await_hook(args)) if con.await_hook else None
            if con.events:
                c.data["event_guards"] = con.events
            try:
                result = invoke(fn, args)
                outcome = ("return", result)
                c.data["result"] = result
            except PathEnd:
                outcome = ("cut", None)
            except (Infeasible, Unsupported, ContractError):
                raise
            except RecursionError:
                raise Unsupported("recursion limit") from None
            except BaseException as e:  # noqa: BLE001
                fr = traceback.extract_tb(e.__traceback__)[-1]
                if ("/contracts/" in fr.filename or "/specs/" in fr.filename) and "contract of" not in str(e):
                    raise ContractError(f"{con.qual}: contract code raised {e!r} at {fr.filename}:{fr.lineno}") from e
                outcome = ("raise", e)
            avail = dict(args)
            avail["old"] = old
            avail["trace"] = c.trace
            avail["ghost"] = c.data["ghost"]
            if outcome[0] == "cut":
                pass
            elif outcome[0] == "return":
                avail["result"] = outcome[1]
                for exc, cond in con.raises.items():
                    c.prove(f"noraise.{exc.__name__}", vcrt.RT().not_(call_with(cond, avail)), kind="raises")
                if con.ensures is not None:
                    c.prove("post", call_with(con.ensures, avail), kind="post")
                if con.ensures_named:
                    for cname, f in con.ensures_named.items():
                        c.prove(f"post.{cname}", call_with(f, avail), kind="post")
                bad = _check_frame(c, con, args)
                if bad:
                    c.prove("frame", tm.FALSE, kind="frame", detail=f"writes outside modifies: {bad}")
            else:
                e = outcome[1]
                cond = None
                found = False
                for exc, cnd in list(con.raises.items()) + list(con.may_raise.items()) + list(con.may_raise_internal.items()):
                    if isinstance(e, exc):
                        found = True
                        cond = cnd
                        break
                if not found:
                    tb = "".join(traceback.format_exception_only(type(e), e)).strip()
                    where = traceback.extract_tb(e.__traceback__)[-1]
                    c.prove(f"unexpected.{type(e).__name__}", tm.FALSE, kind="raises",
                            detail=f"{tb} at {where.filename}:{where.lineno}")
                elif cond is not None:
                    c.prove(f"raise.{type(e).__name__}", call_with(cond, avail), kind="raises")
            if con.finish is not None:
                con.finish(c, outcome, args, old)
            key = outcome[0] if outcome[0] != "raise" else "raise " + type(outcome[1]).__name__
            if outcome[0] == "cut":
                key = "loop-cut"
            rep.outcomes[key] = rep.outcomes.get(key, 0) + 1
        except PathEnd:
            rep.outcomes["loop-cut"] = rep.outcomes.get("loop-cut", 0) + 1
        except Infeasible:
            rep.outcomes["infeasible"] = rep.outcomes.get("infeasible", 0) + 1
            c.obligations.clear()
        except Unsupported as e:
            where = ""
            tbs = traceback.extract_tb(e.__traceback__)
            for fr in reversed(tbs):
                if fr.filename.startswith("<pyvc:"):
                    where = f" at {fr.filename}:{fr.lineno}"
                    break
            rep.failures.append(f"unsupported: {e}{where}")
        finally:
            sym.CUR = None
        rep.inlined |= c.data.get("inlined", set())
        rep.callees |= c.data.get("callees", set())
        pidx = rep.paths - 1
        for name, hyps, goal, meta in c.obligations:
            rep.obligations.append(Obligation(f"{con.name}/{name}/path{pidx}", hyps, goal, decls,
                                              dict(con.smt_options, **meta)))
    rep.seconds = time.time() - t0
    return rep


# event guards: checked when the event happens (guard dominance)
_orig_event = Ctx.event


def _event(self, kind, **data):
    e = _orig_event(self, kind, **data)
    guards = self.data.get("event_guards") or {}
    g = guards.get(kind)
    if g is not None:
        avail = dict(self.data.get("args") or {})
        avail["e"] = e
        avail["old"] = self.data.get("old")
        avail["trace"] = self.trace
        k = self.counters.get("ev:" + kind, 0)
        self.counters["ev:" + kind] = k + 1
        self.prove(f"event.{kind}#{k}", call_with(g, avail), kind="event")
    elif "*" in guards and kind not in ("call", "await", "yield", "inline"):
        self.prove(f"event.{kind}.forbidden", tm.FALSE, kind="event", detail=f"unexpected effect {kind}")
    return e


Ctx.event = _event
