"""SQL front end of pyvc: tokeniser, expression parser and translation of SQLite boolean /
scalar expressions to SMT terms.

The statement text is what the real code hands to `execute` (constants and f-strings are
evaluated by the symbolic executor or taken from the imported module).  Supported:
comparison, AND/OR/NOT, IS [NOT] NULL, [NOT] IN (list), [NOT] EXISTS (subquery as an opaque
atom unless a resolver is given), LIKE ? ESCAPE, GLOB, COALESCE, MAX/MIN (scalar), CASE,
arithmetic, substr, length, parameters (`?`, `?N`, `:name`).  Anything else becomes an
*opaque atom*: an uninterpreted constant named after its normalised text, so that equal
text means equal value and nothing else is assumed.

Dropped: comments, ORDER BY / LIMIT / INDEXED BY (row-set semantics only).
"""

from __future__ import annotations

import re

from . import terms as tm
from .terms import BOOL, INT, STR, T


class SQLError(Exception):
    pass


_TOKEN = re.compile(r"""
    (?P<ws>\s+|--[^\n]*|/\*.*?\*/)
  | (?P<str>'(?:[^']|'')*')
  | (?P<num>\d+(?:\.\d+)?)
  | (?P<param>\?\d*|:[A-Za-z_][A-Za-z_0-9]*|@[A-Za-z_][A-Za-z_0-9]*)
  | (?P<id>[A-Za-z_][A-Za-z_0-9]*|"[^"]+"|`[^`]+`|\[[^\]]+\])
  | (?P<op><>|!=|>=|<=|==|\|\||[-+*/%=<>(),.;])
""", re.X | re.S)


class Tok:
    __slots__ = ("kind", "text", "pidx")

    def __init__(self, kind, text):
        self.kind = kind
        self.text = text
        self.pidx = None

    def __repr__(self):
        return f"{self.kind}:{self.text}"

    @property
    def up(self):
        return self.text.upper() if self.kind == "id" else self.text


def tokenize(sql: str) -> list[Tok]:
    out = []
    pos = 0
    nparam = 0
    while pos < len(sql):
        m = _TOKEN.match(sql, pos)
        if not m:
            raise SQLError(f"cannot tokenise SQL at {sql[pos:pos + 30]!r}")
        pos = m.end()
        kind = m.lastgroup
        if kind == "ws":
            continue
        t = Tok(kind, m.group(kind))
        if kind == "param":
            if t.text == "?":
                t.pidx = nparam
                nparam += 1
            elif t.text[0] == "?":
                t.pidx = int(t.text[1:]) - 1
                nparam = max(nparam, t.pidx + 1)
            else:
                t.pidx = t.text[1:]
        out.append(t)
    return out


_SQL_WORDS = {"SELECT", "FROM", "WHERE", "JOIN", "LEFT", "INNER", "OUTER", "CROSS", "ON", "AND", "OR", "NOT", "IN", "IS",
              "NULL", "AS", "ORDER", "BY", "GROUP", "HAVING", "LIMIT", "UNION", "ALL", "DISTINCT", "EXISTS", "INSERT",
              "INTO", "VALUES", "UPDATE", "SET", "DELETE", "WITH", "RECURSIVE", "CASE", "WHEN", "THEN", "ELSE", "END",
              "LIKE", "GLOB", "ESCAPE", "BETWEEN", "ASC", "DESC", "COUNT", "MAX", "MIN", "SUM", "COALESCE", "REPLACE",
              "IGNORE", "CONFLICT", "DO", "NOTHING", "RETURNING", "INDEXED", "EXCEPT", "INTERSECT", "SUBSTR", "LENGTH"}


def normalize(sql: str) -> str:
    """Layout-insensitive text of a statement: whitespace and comments dropped, SQL keywords in upper case, the noise
    word INNER dropped (identifiers, literals and qualifiers are kept as written)."""
    out = []
    for t in tokenize(sql):
        if t.kind == "id" and t.up in _SQL_WORDS:
            if t.up == "INNER":
                continue
            out.append(t.up)
        else:
            out.append(t.text)
    return " ".join(out)




def match_key(sql: str) -> str:
    """The text by which a statement is recognised (to pick the row type / facts declared for it): comments and
    whitespace dropped, keywords in upper case, INNER / AS dropped, qualifiers `t.` of column names dropped.  Used for
    recognition only: what a statement means is read from its real text."""
    out = []
    toks = tokenize(sql)
    k = 0
    while k < len(toks):
        t = toks[k]
        if t.kind == "id" and k + 2 < len(toks) and toks[k + 1].text == "." and toks[k + 2].kind in ("id", "op") \
                and (toks[k + 2].kind == "id" or toks[k + 2].text == "*"):
            k += 2
            continue
        if t.kind == "id" and t.up in _SQL_WORDS:
            if t.up in ("INNER", "AS"):
                k += 1
                continue
            out.append(t.up)
        else:
            out.append(t.text)
        k += 1
    return " ".join(out)


# --------------------------------------------------------------------------- expression AST

KEYWORDS_END = {"FROM", "WHERE", "GROUP", "ORDER", "LIMIT", "UNION", "EXCEPT", "INTERSECT", "THEN", "ELSE",
                "END", "WHEN", "AND", "OR", "ON", "JOIN", "LEFT", "INNER", "CROSS", "AS", "SET", "RETURNING",
                "HAVING", "WINDOW", "ASC", "DESC", "ESCAPE", "INDEXED", "VALUES", "DO", "BEGIN"}


class Parser:
    def __init__(self, toks: list[Tok], pos=0):
        self.toks = toks
        self.pos = pos

    def peek(self, k=0):
        p = self.pos + k
        return self.toks[p] if p < len(self.toks) else Tok("eof", "")

    def next(self):
        t = self.peek()
        self.pos += 1
        return t

    def accept(self, *ups):
        if self.peek().up in ups:
            return self.next()
        return None

    def expect(self, up):
        t = self.next()
        if t.up != up:
            raise SQLError(f"expected {up}, got {t.text!r}")
        return t

    # precedence climbing following SQLite: OR < AND < NOT < comparison/IS/IN/LIKE < additive ...
    def expr(self):
        left = self.and_()
        while self.accept("OR"):
            left = ("or", left, self.and_())
        return left

    def and_(self):
        left = self.not_()
        while self.accept("AND"):
            left = ("and", left, self.not_())
        return left

    def not_(self):
        if self.peek().up == "NOT" and self.peek(1).up != "EXISTS":
            self.next()
            return ("not", self.not_())
        return self.cmp()

    def cmp(self):
        left = self.add()
        while True:
            t = self.peek()
            if t.up in ("=", "==", "!=", "<>", "<", "<=", ">", ">="):
                self.next()
                op = {"==": "=", "<>": "!="}.get(t.up, t.up)
                left = ("cmp", op, left, self.add())
            elif t.up == "IS":
                self.next()
                neg = bool(self.accept("NOT"))
                if self.accept("NULL"):
                    left = ("isnull", left)
                else:
                    left = ("is", left, self.add())
                if neg:
                    left = ("not", left)
            elif t.up == "ISNULL":
                self.next()
                left = ("isnull", left)
            elif t.up == "NOTNULL":
                self.next()
                left = ("not", ("isnull", left))
            elif t.up in ("IN", "LIKE", "GLOB", "BETWEEN") or (
                    t.up == "NOT" and self.peek(1).up in ("IN", "LIKE", "GLOB", "BETWEEN")):
                neg = bool(self.accept("NOT"))
                kw = self.next().up
                if kw == "IN":
                    self.expect("(")
                    if self.peek().up in ("SELECT", "WITH"):
                        sub = self.subquery_tokens()
                        node = ("in_select", left, sub)
                    else:
                        items = []
                        if self.peek().up != ")":
                            items.append(self.expr())
                            while self.accept(","):
                                items.append(self.expr())
                        self.expect(")")
                        node = ("in", left, items)
                elif kw == "BETWEEN":
                    lo = self.add()
                    self.expect("AND")
                    hi = self.add()
                    node = ("and", ("cmp", ">=", left, lo), ("cmp", "<=", left, hi))
                else:
                    pat = self.add()
                    esc = None
                    if self.accept("ESCAPE"):
                        esc = self.add()
                    node = (kw.lower(), left, pat, esc)
                left = ("not", node) if neg else node
            else:
                return left

    def add(self):
        left = self.mul()
        while self.peek().up in ("+", "-", "||"):
            op = self.next().up
            left = ("bin", op, left, self.mul())
        return left

    def mul(self):
        left = self.unary()
        while self.peek().up in ("*", "/", "%"):
            op = self.next().up
            left = ("bin", op, left, self.unary())
        return left

    def unary(self):
        if self.accept("-"):
            return ("neg", self.unary())
        if self.accept("+"):
            return self.unary()
        return self.atom()

    def subquery_tokens(self):
        """Consume tokens up to the matching ')' (the '(' was consumed); return them."""
        depth = 1
        start = self.pos
        while depth:
            t = self.next()
            if t.kind == "eof":
                raise SQLError("unbalanced parentheses")
            if t.up == "(":
                depth += 1
            elif t.up == ")":
                depth -= 1
        return self.toks[start:self.pos - 1]

    def atom(self):
        t = self.next()
        if t.kind == "num":
            return ("num", t.text)
        if t.kind == "str":
            return ("str", t.text[1:-1].replace("''", "'"))
        if t.kind == "param":
            return ("param", t.pidx)
        if t.up == "(":
            if self.peek().up in ("SELECT", "WITH"):
                return ("scalar_select", self.subquery_tokens())
            e = self.expr()
            if self.peek().up == ",":
                items = [e]
                while self.accept(","):
                    items.append(self.expr())
                self.expect(")")
                return ("row", items)
            self.expect(")")
            return e
        if t.kind == "id":
            up = t.up
            if up == "NULL":
                return ("null",)
            if up == "TRUE":
                return ("num", "1")
            if up == "FALSE":
                return ("num", "0")
            if up == "NOT" and self.peek().up == "EXISTS":
                self.next()
                self.expect("(")
                return ("not", ("exists", self.subquery_tokens()))
            if up == "EXISTS":
                self.expect("(")
                return ("exists", self.subquery_tokens())
            if up == "CASE":
                base = None
                if self.peek().up != "WHEN":
                    base = self.expr()
                whens = []
                while self.accept("WHEN"):
                    c = self.expr()
                    self.expect("THEN")
                    whens.append((c, self.expr()))
                else_ = None
                if self.accept("ELSE"):
                    else_ = self.expr()
                self.expect("END")
                return ("case", base, whens, else_)
            if up == "CAST":
                self.expect("(")
                e = self.expr()
                self.expect("AS")
                ty_ = self.next().text
                self.expect(")")
                return ("cast", e, ty_.upper())
            if self.peek().up == "(":
                self.next()
                args = []
                star = False
                distinct = bool(self.accept("DISTINCT"))
                if self.peek().up == "*":
                    self.next()
                    star = True
                elif self.peek().up != ")":
                    args.append(self.expr())
                    while self.accept(","):
                        args.append(self.expr())
                self.expect(")")
                if self.peek().up in ("OVER", "FILTER"):
                    raise SQLError("window / filter clause")
                return ("call", up, args, star, distinct)
            name = _unquote(t.text)
            if self.peek().up == "." and self.peek(1).kind == "id":
                self.next()
                col = _unquote(self.next().text)
                return ("col", name, col)
            return ("col", None, name)
        raise SQLError(f"unexpected token {t.text!r}")


def _unquote(s):
    if s[0] in '"`[':
        return s[1:-1]
    return s


def show(toks) -> str:
    return " ".join(t.text for t in toks)


def parse_expr(text_or_tokens):
    toks = tokenize(text_or_tokens) if isinstance(text_or_tokens, str) else list(text_or_tokens)
    p = Parser(toks)
    e = p.expr()
    if p.peek().kind != "eof":
        raise SQLError(f"trailing tokens in expression: {show(p.toks[p.pos:])[:60]}")
    return e


def conjuncts(e):
    if e[0] == "and":
        return conjuncts(e[1]) + conjuncts(e[2])
    return [e]


def columns_of(e, out=None):
    out = set() if out is None else out
    if isinstance(e, tuple):
        if e and e[0] == "col":
            out.add((e[1], e[2]))
        for x in e:
            if isinstance(x, (tuple, list)):
                columns_of(x, out)
    elif isinstance(e, list):
        for x in e:
            columns_of(x, out)
    return out


def params_of(e, out=None):
    out = set() if out is None else out
    if isinstance(e, tuple):
        if e and e[0] == "param":
            out.add(e[1])
        if e and e[0] in ("exists", "scalar_select", "in_select"):
            for t in (e[1] if e[0] != "in_select" else e[2]):
                if isinstance(t, Tok) and t.kind == "param":
                    out.add(t.pidx)
        for x in e:
            if isinstance(x, (tuple, list)):
                params_of(x, out)
    elif isinstance(e, list):
        for x in e:
            params_of(x, out)
    return out


# --------------------------------------------------------------------------- statement structure


def split_select(toks: list[Tok]):
    """Top-level clauses of a SELECT: dict with token lists for select, from, where, rest."""
    depth = 0
    marks = []
    for i, t in enumerate(toks):
        if t.up == "(":
            depth += 1
        elif t.up == ")":
            depth -= 1
        elif depth == 0 and t.kind == "id" and t.up in ("SELECT", "FROM", "WHERE", "GROUP", "ORDER", "LIMIT",
                                                         "HAVING", "UNION", "EXCEPT", "INTERSECT"):
            marks.append((t.up, i))
    out = {}
    for k, (name, i) in enumerate(marks):
        j = marks[k + 1][1] if k + 1 < len(marks) else len(toks)
        if name in out:
            continue
        out[name] = toks[i + 1:j]
    return out


def where_of(sql_or_toks):
    toks = tokenize(sql_or_toks) if isinstance(sql_or_toks, str) else sql_or_toks
    # skip a leading WITH ... AS (...) prefix and UPDATE/DELETE heads: take the last top-level WHERE
    depth = 0
    idx = None
    for i, t in enumerate(toks):
        if t.up == "(":
            depth += 1
        elif t.up == ")":
            depth -= 1
        elif depth == 0 and t.up == "WHERE":
            idx = i
    if idx is None:
        return None
    depth = 0
    end = len(toks)
    for j in range(idx + 1, len(toks)):
        t = toks[j]
        if t.up == "(":
            depth += 1
        elif t.up == ")":
            depth -= 1
            if depth < 0:
                end = j
                break
        elif depth == 0 and t.kind == "id" and t.up in ("GROUP", "ORDER", "LIMIT", "UNION", "EXCEPT",
                                                         "INTERSECT", "RETURNING") or t.up == ";":
            end = j
            break
    return parse_expr(toks[idx + 1:end])


def from_aliases(toks: list[Tok]):
    """alias -> table for a FROM clause token list (joins included); ON conditions returned too."""
    aliases = {}
    ons = []
    p = Parser(toks)
    while p.peek().kind != "eof":
        t = p.peek()
        if t.up in (",", "JOIN", "LEFT", "INNER", "CROSS", "OUTER", "NATURAL"):
            p.next()
            continue
        if t.up == "ON":
            p.next()
            ons.append(p.expr())
            continue
        if t.up == "(":
            p.next()
            sub = p.subquery_tokens()
            alias = None
            p.accept("AS")
            if p.peek().kind == "id" and p.peek().up not in KEYWORDS_END:
                alias = _unquote(p.next().text)
            aliases[alias or f"sub{len(aliases)}"] = ("subquery", sub)
            continue
        if t.kind == "id":
            table = _unquote(p.next().text)
            if p.peek().up == ".":
                p.next()
                table = table + "." + _unquote(p.next().text)
            alias = table
            if p.accept("AS"):
                alias = _unquote(p.next().text)
            elif p.peek().kind == "id" and p.peek().up not in KEYWORDS_END:
                alias = _unquote(p.next().text)
            if p.accept("INDEXED"):
                p.expect("BY")
                p.next()
            aliases[alias] = table
            continue
        raise SQLError(f"unexpected token in FROM: {t.text!r}")
    return aliases, ons


# --------------------------------------------------------------------------- translation


class Val:
    """An SQL value: SMT term + sort tag ('int', 'str', 'bool') + null flag term."""

    __slots__ = ("t", "kind", "null")

    def __init__(self, t, kind, null=tm.FALSE):
        self.t = t
        self.kind = kind
        self.null = null


class Translator:
    """Translate expression ASTs.  `column(alias, name) -> Val`, `param(idx) -> Val`,
    optional `subquery(kind, tokens) -> Val` resolve the leaves; string order uses the
    uninterpreted total order `sle` unless native=True."""

    def __init__(self, decls: tm.Decls, column, param, subquery=None, native_order=False):
        self.decls = decls
        self.column = column
        self.param = param
        self.subquery = subquery
        self.native_order = native_order
        self.opaque_count = 0

    # truth value of a Val in boolean context: (is_true, is_null)
    def truth(self, v: Val):
        if v.kind == "bool":
            return v.t, v.null
        if v.kind == "int":
            return tm.Ne(v.t, tm.mk_int(0)), v.null
        raise SQLError("string in boolean context")

    def opaque(self, text, kind="bool"):
        name = "sqlatom_" + re.sub(r"[^A-Za-z0-9_.]", "_", text)[:120] + f"_{abs(hash(text)) % 10**8}"
        sort = {"bool": BOOL, "int": INT, "str": STR}[kind]
        return Val(self.decls.const(name, sort), kind)

    def sle(self, a: T, b: T):
        if self.native_order:
            return tm.StrLe(a, b)
        f = self.decls.fun("sle", [STR, STR], BOOL)
        return f(a, b)

    def slt(self, a: T, b: T):
        if self.native_order:
            return tm.StrLt(a, b)
        f = self.decls.fun("slt", [STR, STR], BOOL)
        return f(a, b)

    def ev(self, e) -> Val:
        k = e[0]
        if k == "num":
            if "." in e[1]:
                raise SQLError("real literal")
            return Val(tm.mk_int(int(e[1])), "int")
        if k == "str":
            return Val(tm.mk_str(e[1]), "str")
        if k == "null":
            return Val(tm.mk_int(0), "int", tm.TRUE)
        if k == "param":
            return self.param(e[1])
        if k == "col":
            return self.column(e[1], e[2])
        if k == "not":
            t, n = self.truth(self.ev(e[1]))
            return Val(tm.Not(t), "bool", n)
        if k == "and":
            at, an = self.truth(self.ev(e[1]))
            bt, bn = self.truth(self.ev(e[2]))
            # three-valued: false if either is definitely false; null if otherwise one is null
            a_false = tm.And(tm.Not(an), tm.Not(at))
            b_false = tm.And(tm.Not(bn), tm.Not(bt))
            is_false = tm.Or(a_false, b_false)
            null = tm.And(tm.Not(is_false), tm.Or(an, bn))
            return Val(tm.And(tm.Not(is_false), tm.Not(null)), "bool", null)
        if k == "or":
            at, an = self.truth(self.ev(e[1]))
            bt, bn = self.truth(self.ev(e[2]))
            a_true = tm.And(tm.Not(an), at)
            b_true = tm.And(tm.Not(bn), bt)
            is_true = tm.Or(a_true, b_true)
            null = tm.And(tm.Not(is_true), tm.Or(an, bn))
            return Val(is_true, "bool", null)
        if k == "isnull":
            return Val(self.ev(e[1]).null, "bool")
        if k == "is":
            a, b = self.ev(e[1]), self.ev(e[2])
            a, b = self.unify(a, b)
            same = tm.Or(tm.And(a.null, b.null), tm.And(tm.Not(a.null), tm.Not(b.null), tm.Eq(a.t, b.t)))
            return Val(same, "bool")
        if k == "cmp":
            a, b = self.ev(e[2]), self.ev(e[3])
            a, b = self.unify(a, b)
            op = e[1]
            null = tm.Or(a.null, b.null)
            if a.kind == "str":
                if op == "=":
                    t = tm.Eq(a.t, b.t)
                elif op == "!=":
                    t = tm.Ne(a.t, b.t)
                elif op == "<=":
                    t = self.sle(a.t, b.t)
                elif op == ">=":
                    t = self.sle(b.t, a.t)
                elif op == "<":
                    t = self.slt(a.t, b.t)
                else:
                    t = self.slt(b.t, a.t)
            else:
                f = {"=": tm.Eq, "!=": tm.Ne, "<": tm.Lt, "<=": tm.Le, ">": tm.Gt, ">=": tm.Ge}[op]
                t = f(self.as_int(a), self.as_int(b))
            return Val(t, "bool", null)
        if k == "in":
            a = self.ev(e[1])
            parts = []
            nulls = [a.null]
            for it in e[2]:
                b = self.ev(it)
                a2, b2 = self.unify(a, b)
                parts.append(tm.Eq(self.as_cmp(a2), self.as_cmp(b2)))
                nulls.append(b.null)
            return Val(tm.Or(*parts) if parts else tm.FALSE, "bool", a.null)
        if k in ("like", "glob"):
            a, pat = self.ev(e[1]), self.ev(e[2])
            esc = self.ev(e[3]).t if e[3] is not None else None
            sorts = [STR, STR] + ([STR] if esc is not None else [])
            f = self.decls.fun("sql_" + k + ("_esc" if esc is not None else ""), sorts, BOOL)
            args = [a.t, pat.t] + ([esc] if esc is not None else [])
            return Val(f(*args), "bool", tm.Or(a.null, pat.null))
        if k == "neg":
            a = self.ev(e[1])
            return Val(tm.Neg(self.as_int(a)), "int", a.null)
        if k == "bin":
            a, b = self.ev(e[2]), self.ev(e[3])
            op = e[1]
            null = tm.Or(a.null, b.null)
            if op == "||":
                return Val(tm.Concat(a.t, b.t), "str", null)
            if op in ("+", "-", "*"):
                f = {"+": tm.Add, "-": tm.Sub, "*": tm.Mul}[op]
                return Val(f(self.as_int(a), self.as_int(b)), "int", null)
            raise SQLError(f"operator {op}")
        if k == "call":
            name, args = e[1], e[2]
            if name == "COALESCE":
                vals = [self.ev(a) for a in args]
                out = vals[-1]
                for v in reversed(vals[:-1]):
                    v2, o2 = self.unify(v, out)
                    out = Val(tm.Ite(v.null, self.as_cmp(o2), self.as_cmp(v2)), v2.kind if v2.kind != "bool" else "int",
                              tm.And(v.null, out.null))
                return out
            if name in ("MAX", "MIN") and len(args) >= 2:
                vals = [self.ev(a) for a in args]
                out = vals[0]
                f = tm.Max if name == "MAX" else tm.Min
                for v in vals[1:]:
                    out = Val(f(self.as_int(out), self.as_int(v)), "int", tm.Or(out.null, v.null))
                return out
            if name == "LENGTH" and len(args) == 1:
                a = self.ev(args[0])
                return Val(tm.Len(a.t), "int", a.null)
            if name == "SUBSTR" and len(args) == 3:
                s, st, n = (self.ev(a) for a in args)
                # SQLite substr is 1-based; only the form with start >= 1 is interpreted
                return Val(tm.Substr(s.t, tm.Sub(self.as_int(st), tm.mk_int(1)), self.as_int(n)), "str",
                           tm.Or(s.null, st.null, n.null))
            if name == "IIF" and len(args) == 3:
                c, _ = self.truth(self.ev(args[0]))
                a, b = self.ev(args[1]), self.ev(args[2])
                a, b = self.unify(a, b)
                return Val(tm.Ite(c, self.as_cmp(a), self.as_cmp(b)), a.kind if a.kind != "bool" else "int",
                           tm.Ite(c, a.null, b.null))
            return self.leaf_opaque(e)
        if k == "case":
            base, whens, else_ = e[1], e[2], e[3]
            out = self.ev(else_) if else_ is not None else Val(tm.mk_int(0), "int", tm.TRUE)
            for cond, val in reversed(whens):
                if base is not None:
                    cond = ("cmp", "=", base, cond)
                ct, cn = self.truth(self.ev(cond))
                c = tm.And(ct, tm.Not(cn))
                v = self.ev(val)
                v, out2 = self.unify(v, out)
                out = Val(tm.Ite(c, self.as_cmp(v), self.as_cmp(out2)), v.kind if v.kind != "bool" else "int",
                          tm.Ite(c, v.null, out.null))
            return out
        if k == "cast":
            return self.ev(e[1])
        if k in ("exists", "scalar_select", "in_select"):
            if self.subquery is not None:
                r = self.subquery(e)
                if r is not None:
                    return r
            return self.leaf_opaque(e)
        raise SQLError(f"unsupported SQL expression node {k}")

    def leaf_opaque(self, e):
        def txt(x):
            if isinstance(x, Tok):
                return x.text
            if isinstance(x, (tuple, list)):
                return "(" + " ".join(txt(y) for y in x) + ")"
            return str(x)

        kind = "bool" if e[0] in ("exists", "in_select") else "int"
        return self.opaque(txt(e), kind)

    def as_int(self, v: Val) -> T:
        if v.kind == "int":
            return v.t
        if v.kind == "bool":
            return tm.Ite(v.t, tm.mk_int(1), tm.mk_int(0))
        raise SQLError("string where a number is expected")

    def as_cmp(self, v: Val) -> T:
        return v.t if v.kind == "str" else self.as_int(v)

    def unify(self, a: Val, b: Val):
        if (a.kind == "str") != (b.kind == "str"):
            raise SQLError("comparison between text and number")
        return a, b

    def holds(self, e) -> T:
        """The row is selected by WHERE e (true and not null)."""
        t, n = self.truth(self.ev(e))
        return tm.And(t, tm.Not(n))


# --------------------------------------------------------------------------- directory selections


def boolean_exprs(sql_or_toks):
    """Every expression that follows a WHERE or ON keyword, at any nesting depth."""
    toks = tokenize(sql_or_toks) if isinstance(sql_or_toks, str) else list(sql_or_toks)
    out = []
    for i, t in enumerate(toks):
        if t.kind == "id" and t.up in ("WHERE", "ON"):
            p = Parser(toks, i + 1)
            try:
                out.append(p.expr())
            except SQLError:
                continue
    return out


def _mentions_label(e):
    return any(c[1] == "label" for c in columns_of(e))


def _has_call(e, name):
    if isinstance(e, tuple):
        if e and e[0] == "call" and e[1] == name:
            return True
        return any(_has_call(x, name) for x in e if isinstance(x, (tuple, list)))
    if isinstance(e, list):
        return any(_has_call(x, name) for x in e)
    return False


def is_dir_selection(e):
    """A conjunct that selects labels by position relative to a directory (not by equality)."""
    if not _mentions_label(e):
        return False
    if e[0] == "cmp" and e[1] in ("<", "<=", ">", ">="):
        return True
    if e[0] in ("like", "glob"):
        return True
    if e[0] == "cmp" and e[1] == "=" and _has_call(e, "SUBSTR"):
        return True
    if e[0] == "not":
        return is_dir_selection(e[1])
    if e[0] == "or":
        return is_dir_selection(e[1]) or is_dir_selection(e[2])
    return False


def dir_selections(sql):
    """Groups of directory-selection conjuncts, one group per boolean expression that has any."""
    groups = []
    for e in boolean_exprs(sql):
        sel = [c for c in conjuncts(e) if is_dir_selection(c)]
        if sel:
            groups.append(sel)
    return groups
