"""Solver portfolio: z3 5.1 (z3-new), cvc5 1.0.3, z3 4.8.12, driven as command line tools.

verdicts: 'unsat' (obligation discharged), 'sat' (counter-model), 'unknown' (undecided).
An `unsat` from any solver discharges; a `sat` from any solver refutes; if solvers
contradict each other the result is reported as 'conflict' (checker error, exit 3).
"""

from __future__ import annotations

import os
import shutil
import subprocess
import tempfile
import time
from concurrent.futures import ThreadPoolExecutor

SOLVERS = {
    "z3": lambda f, t: ["z3-new", f"-T:{t}", f],
    "cvc5": lambda f, t: ["/usr/bin/cvc5", "--strings-exp", f"--tlimit={t * 1000}", f],
    "cvc5fmf": lambda f, t: [
        "/usr/bin/cvc5", "--strings-exp", "--strings-fmf", f"--tlimit={t * 1000}", f],
    "z3old": lambda f, t: ["/usr/bin/z3", f"-T:{t}", f],
}


def solvers_present():
    missing = [n for n in ("z3-new", "/usr/bin/cvc5", "/usr/bin/z3") if shutil.which(n) is None]
    return missing


class Result:
    def __init__(self, verdict, solver, seconds, output, per_solver):
        self.verdict = verdict
        self.solver = solver
        self.seconds = seconds
        self.output = output
        self.per_solver = per_solver  # name -> (verdict, seconds)

    def __repr__(self):
        return f"Result({self.verdict}, {self.solver}, {self.seconds:.2f}s)"


def _parse(out: str):
    for line in out.splitlines():
        line = line.strip()
        if line in ("sat", "unsat", "unknown"):
            return line
        if line.startswith("(error"):
            return "error"
    return "unknown"


def run_query(text: str, timeout: int = 10, solvers=("z3", "cvc5"), workdir=None) -> Result:
    """Run the solvers concurrently on one query; first definitive answer wins."""
    fd, path = tempfile.mkstemp(suffix=".smt2", dir=workdir)
    with os.fdopen(fd, "w") as fh:
        fh.write(text)
    procs = {}
    t0 = time.time()
    try:
        for name in solvers:
            procs[name] = (
                subprocess.Popen(
                    SOLVERS[name](path, timeout),
                    stdout=subprocess.PIPE,
                    stderr=subprocess.STDOUT,
                    text=True,
                ),
                time.time(),
            )
        per = {}
        final = None
        pending = dict(procs)
        deadline = t0 + timeout + 5
        while pending and final is None:
            for name, (p, ts) in list(pending.items()):
                rc = p.poll()
                if rc is None:
                    continue
                out = p.stdout.read()
                v = _parse(out)
                per[name] = (v, time.time() - ts, out)
                del pending[name]
                if v in ("sat", "unsat"):
                    final = (v, name, out)
                    break
            if final is None and pending:
                if time.time() > deadline:
                    break
                time.sleep(0.005)
        for name, (p, ts) in pending.items():
            p.kill()
            p.wait()
            per.setdefault(name, ("unknown", time.time() - ts, "killed"))
        if final is None:
            outs = "\n".join(f"[{n}] {o[2].strip()[:400]}" for n, o in per.items())
            verdict = "error" if all(o[0] == "error" for o in per.values()) else "unknown"
            return Result(verdict, None, time.time() - t0, outs,
                          {n: (o[0], o[1]) for n, o in per.items()})
        return Result(final[0], final[1], per[final[1]][1], final[2],
                      {n: (o[0], o[1]) for n, o in per.items()})
    finally:
        try:
            os.unlink(path)
        except OSError:
            pass


def run_many(queries, timeout=10, solvers=("z3", "cvc5"), workers=None):
    """queries: list of (key, text[, solvers]).  Returns dict key -> Result."""
    workers = workers or max(2, (os.cpu_count() or 4) // 2)
    res = {}
    with tempfile.TemporaryDirectory(prefix="pyvc-") as wd, ThreadPoolExecutor(workers) as ex:
        futs = {}
        for q in queries:
            key, text = q[0], q[1]
            sv = q[2] if len(q) > 2 and q[2] else solvers
            to = q[3] if len(q) > 3 and q[3] else timeout
            futs[key] = ex.submit(run_query, text, to, sv, wd)
        for key, f in futs.items():
            res[key] = f.result()
    return res


def parse_values(output: str) -> dict[str, str]:
    """Parse a `(get-value ...)` answer into {term text: value text} (best effort)."""
    i = output.find("((")
    if i < 0:
        return {}
    s = output[i:]
    toks = []
    j = 0
    n = len(s)
    # tokenise s-expression, keeping string literals intact
    while j < n:
        c = s[j]
        if c in "()":
            toks.append(c)
            j += 1
        elif c == '"':
            k = j + 1
            while k < n:
                if s[k] == '"':
                    if k + 1 < n and s[k + 1] == '"':
                        k += 2
                        continue
                    break
                k += 1
            toks.append(s[j : k + 1])
            j = k + 1
        elif c.isspace():
            j += 1
        else:
            k = j
            while k < n and not s[k].isspace() and s[k] not in '()"':
                k += 1
            toks.append(s[j:k])
            j = k

    def parse(pos):
        if toks[pos] == "(":
            items = []
            pos += 1
            while toks[pos] != ")":
                it, pos = parse(pos)
                items.append(it)
            return items, pos + 1
        return toks[pos], pos + 1

    try:
        tree, _ = parse(0)
    except IndexError:
        return {}

    def show(x):
        if isinstance(x, list):
            return "(" + " ".join(show(y) for y in x) + ")"
        return x

    out = {}
    for pair in tree:
        if isinstance(pair, list) and len(pair) == 2:
            out[show(pair[0])] = show(pair[1])
    return out


def smt_value_to_py(v: str):
    """Convert an SMT-LIB value literal to Python (int, bool, str) where possible."""
    v = v.strip()
    if v == "true":
        return True
    if v == "false":
        return False
    if v.startswith('"') and v.endswith('"'):
        body = v[1:-1].replace('""', '"')
        out = []
        i = 0
        while i < len(body):
            if body.startswith("\\u{", i):
                j = body.index("}", i)
                out.append(chr(int(body[i + 3 : j], 16)))
                i = j + 1
            elif body.startswith("\\u", i) and i + 6 <= len(body):
                out.append(chr(int(body[i + 2 : i + 6], 16)))
                i += 6
            else:
                out.append(body[i])
                i += 1
        return "".join(out)
    if v.startswith("(- ") and v.endswith(")"):
        try:
            return -int(v[3:-1])
        except ValueError:
            return v
    try:
        return int(v)
    except ValueError:
        return v
