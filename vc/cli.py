import sys

from vc import report

if __name__ == "__main__":
    sys.exit(report.main(sys.argv[1:]))
