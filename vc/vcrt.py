"""Run-time support for transformed functions: the `__vc__` object and dual-mode builtins.

Everything here behaves like the Python construct it replaces when the operands are
concrete, and builds terms when they are symbolic.
"""

from __future__ import annotations

import builtins
import enum

from . import sym
from . import terms as tm
from . import types as ty
from .sym import (B, I, S, PathEnd, SymBool, SymBytes, SymEnum, SymInt, SymMap, SymObj, SymOpt,
                  SymSeq, SymSet, SymStr, Unsupported, cur, is_symbolic, wrap_bool, wrap_int, wrap_str)
from .terms import BOOL, INT, STR


class Namespace:
    def __init__(self, d):
        self.__dict__.update(d)

    def __getattr__(self, k):
        raise Unsupported(f"contract refers to {k!r}, which is not bound at this point")


# --------------------------------------------------------------------------- views of maps


class SymItems:
    def __init__(self, m: SymMap):
        self.m = m


class SymKeys:
    def __init__(self, m):
        self.m = m


class SymValues:
    def __init__(self, m):
        self.m = m


def _map_items(self):
    return SymItems(self)


def _map_keys(self):
    return SymKeys(self)


def _map_values(self):
    return SymValues(self)


SymMap.items = _map_items
SymMap.keys = _map_keys
SymMap.values = _map_values


def key_order(has: tm.T, ksort: str, sorted_: bool, nonce=None):
    """(element array, count) enumerating the key set `has`.

    sorted_: the ascending enumeration, a function of the set alone.
    otherwise: an arbitrary enumeration (fresh per call), which is how Python's dict/set
    iteration order is modelled."""
    c = cur()
    hs = tm.arr(ksort, BOOL)
    cnt = c.decls.fun("count_" + ksort, [hs], INT)(has)
    c.pc.append(tm.Ge(cnt, tm.mk_int(0)))
    if sorted_:
        arr = c.decls.fun("sorted_" + ksort, [hs], tm.arr(INT, ksort))(has)
    else:
        arr = c.fresh("iterorder", tm.arr(INT, ksort))
    return arr, cnt


def index_of(container, key):
    """Ghost: the position of `key` in the ascending enumeration of the container's keys, with the instance
    "a member sits at its position" for this key."""
    c = cur()
    ks = container.ksort
    kt = container.kterm(key)
    arr, cnt = key_order(container.has, ks, True)
    idx = c.decls.fun("index_" + ks, [container.has.sort, ks], INT)(container.has, kt)
    c.pc.append(tm.Implies(tm.Select(container.has, kt, BOOL),
                           tm.And(tm.Le(tm.mk_int(0), idx), tm.Lt(idx, cnt), tm.Eq(tm.Select(arr, idx, ks), kt))))
    return idx


def keys_seq(container, sorted_: bool, wrap_elem=None):
    """SymSeq over the keys of a SymMap / SymSet."""
    c = cur()
    ks = container.ksort
    arr, cnt = key_order(container.has, ks, sorted_)
    has = container.has
    kwrap = container.kwrap

    def elem(i):
        kt = tm.Select(arr, i, ks)
        inr = tm.And(tm.Le(tm.mk_int(0), i), tm.Lt(i, cnt))
        # instance of: every enumerated element is a member
        c2 = cur()
        c2.pc.append(tm.Implies(inr, tm.Select(has, kt, BOOL)))
        if sorted_:
            # the element at position i has index i (the enumeration is injective)
            idxf = c2.decls.fun("index_" + ks, [has.sort, ks], INT)
            c2.pc.append(tm.Implies(inr, tm.Eq(idxf(has, kt), i)))
        if sorted_ and ks == STR:
            # instances of strict ascent around i (neighbours)
            prev = tm.Select(arr, tm.Sub(i, tm.mk_int(1)), ks)
            c2.pc.append(tm.Implies(tm.And(inr, tm.Gt(i, tm.mk_int(0))), tm.StrLt(prev, kt)))
        k = kwrap(kt)
        inv = getattr(container, "elem_invariant", None)
        if inv is not None:
            c2.pc.append(tm.Implies(inr, B(inv(k))))
        return wrap_elem(k) if wrap_elem else k

    q = SymSeq(elem, cnt, name=("sorted" if sorted_ else "iter") + "(" + container.name + ")")
    q.key_array = arr
    q.container = container
    q.sorted = sorted_

    def distinct(a, b):
        """Instance of: an enumeration of a key set yields every key once (two different positions in range hold
        different keys)."""
        a, b = I(a), I(b)
        inr = tm.And(tm.Le(tm.mk_int(0), a), tm.Lt(a, cnt), tm.Le(tm.mk_int(0), b), tm.Lt(b, cnt), tm.Ne(a, b))
        return tm.Implies(inr, tm.Ne(tm.Select(arr, a, ks), tm.Select(arr, b, ks)))

    q.distinct = distinct
    return q


def as_symseq(it, sorted_=False):
    """A SymSeq for a symbolic iterable, or None when `it` is concrete."""
    if isinstance(it, SymSeq):
        if sorted_ and not getattr(it, "sorted", False):
            raise Unsupported("sorted() of a symbolic sequence")
        return it
    if isinstance(it, (SymMap, SymSet)):
        return keys_seq(it, sorted_)
    if isinstance(it, SymKeys):
        return keys_seq(it.m, sorted_)
    if isinstance(it, SymItems):
        m = it.m
        return keys_seq(m, sorted_, wrap_elem=lambda k: (k, m.value_at(k)))
    if isinstance(it, SymValues):
        if sorted_:
            raise Unsupported("sorted() of symbolic map values")
        m = it.m
        return keys_seq(m, False, wrap_elem=lambda k: m.value_at(k))
    if hasattr(it, "__symseq__"):
        return it.__symseq__()
    return None


# --------------------------------------------------------------------------- loops


class Poison:
    """A value that must not be used (unknown local after a loop cut)."""

    def __init__(self, what):
        object.__setattr__(self, "_what", what)

    def _boom(self, *a, **k):
        raise Unsupported("use of " + object.__getattribute__(self, "_what"))

    __getattr__ = __call__ = __bool__ = __eq__ = __ne__ = __iter__ = __getitem__ = __add__ = __radd__ = _boom
    __hash__ = None


class LoopSpec:
    def __init__(self, invariant=None, locals=None, facts=None, modifies=None, decreases=None,
                 keep=(), exit_facts=None, havoc=(), forall=None, step_post=None):
        self.invariant = invariant
        self.locals = locals or {}
        self.facts = facts
        self.modifies = modifies or {}
        self.decreases = decreases
        self.keep = tuple(keep)
        self.havoc = tuple(havoc)  # extra local names whose objects the body mutates through calls
        # universally quantified invariant: name -> Spec of scalar sort; the invariant reads them as e.q.<name>;
        # it is assumed for all values and proved for fresh (arbitrary) ones
        self.forall = forall or {}
        # per-iteration postcondition: lambda e -> bool, with e.iter_pre = heap snapshots taken at the start of
        # the (arbitrary) iteration; proved at the end of the body in addition to the invariant
        self.step_post = step_post


class _LoopBase:
    def __init__(self, rt, k, env, names):
        self.rt = rt
        self.k = k
        self.names = names
        self.spec: LoopSpec | None = rt.loop_specs.get(k)
        self.sym = False
        self.i = None
        self.n = None
        self.seq = None
        self.mark = 0

    def _env(self, env, i):
        d = dict(env)
        d.pop("__vc__", None)
        d["i"] = i
        d["n"] = wrap_int(self.n) if self.n is not None else None
        d["seq"] = self.seq
        d["old"] = cur().data.get("old")
        d["ghost"] = cur().data.get("ghost")
        d["entry"] = self.entry_env
        d["pre"] = self.pre  # snapshots of the heap objects bound to locals when the loop was entered
        an = getattr(self, "acc_name", None)
        d["acc"] = env.get(an) if an else None  # the local the body appends / adds to (None if not unique)
        return Namespace(d)

    def _inv(self, env, i, mode="prove"):
        if self.spec is None or self.spec.invariant is None:
            return True
        ns = self._env(env, i)
        if self.spec.facts is not None:
            for f in self.spec.facts(ns):
                cur().assume(f)
        if not self.spec.forall:
            r = self.spec.invariant(ns)
            if isinstance(r, (list, tuple)):
                return wrap_bool(tm.And(*[B(x) for x in r]))
            return r
        c = cur()
        if mode == "prove":
            ns.__dict__["q"] = Namespace({n: sp.fresh(c.fresh_name(f"L{self.k}.any.{n}")) for n, sp in self.spec.forall.items()})
            r = self.spec.invariant(ns)
            if isinstance(r, (list, tuple)):
                return wrap_bool(tm.And(*[B(x) for x in r]))
            return r
        # assume: for all values of the quantified variables
        bound = []
        qvals = {}
        for n, sp in self.spec.forall.items():
            vname = c.fresh_name(f"L{self.k}!q!{n}")
            bound.append((vname, sp.scalar_sort))
            qvals[n] = sp.wrap(tm.Var(vname, sp.scalar_sort))
        ns.__dict__["q"] = Namespace(qvals)
        n0 = len(c.pc)
        ob0, tr0 = len(c.obligations), len(c.trace)
        c.nofork += 1
        try:
            res = self.spec.invariant(ns)
        finally:
            c.nofork -= 1
            del c.obligations[ob0:]
            del c.trace[tr0:]
        side = c.pc[n0:]
        del c.pc[n0:]
        if not isinstance(res, (list, tuple)):
            return wrap_bool(tm.ForAll(bound, tm.And(*side, B(res))))
        # a conjunction given as a list: one quantified formula per conjunct (and per side fact, each of which
        # is an instance of a sound axiom), over the bound variables that occur in it
        import re as _re

        def close(t):
            used = [(n, s_) for n, s_ in bound if _re.search(r"(?<![\w.!])" + _re.escape(n) + r"(?![\w.!])", t.s)]
            return tm.ForAll(used, t) if used else t

        return wrap_bool(tm.And(*[close(B(x)) for x in list(side) + list(res)]))

    def havoc(self, name, value):
        c = cur()
        if self.spec is not None and name in self.spec.keep:
            return value
        sp = None
        if self.spec is not None:
            sp = self.spec.locals.get(name)
            if sp is None and name == getattr(self, "acc_name", None):
                sp = self.spec.locals.get("@acc")
            if sp is None:
                # by role: "@<ClassName>" describes every loop-carried local whose value is of that class (whatever the
                # local is called)
                for k in type(value).__mro__:
                    if "@" + k.__name__ in self.spec.locals:
                        sp = self.spec.locals["@" + k.__name__]
                        break
        if isinstance(value, SymObj) and not value._frozen:
            fields = None
            if self.spec is not None and name in self.spec.modifies:
                fields = self.spec.modifies[name]
            havoc_obj(value, fields, f"L{self.k}.{name}")
            return value
        if isinstance(value, (SymMap, SymSet)) and sp is None:
            havoc_container(value, f"L{self.k}.{name}")
            return value
        if isinstance(value, dict) and not value and sp is not None and isinstance(sp, ty.MapOf):
            m = sp.fresh(c.fresh_name(f"L{self.k}.{name}"))
            m.value_invariant = None
            sym.mark_born(m)
            c.data.setdefault("havocked", set()).add(id(m))
            return m
        if isinstance(value, (set, frozenset)) and not value and sp is not None and isinstance(sp, ty.SetOf):
            st = sp.fresh(c.fresh_name(f"L{self.k}.{name}"))
            st.elem_invariant = None
            sym.mark_born(st)
            c.data.setdefault("havocked", set()).add(id(st))
            return st
        if isinstance(value, list) and not value and sp is not None and isinstance(sp, ty.SeqOf):
            # an empty list literal that the loop fills: from here on an array-backed sequence
            q = sp.fresh(c.fresh_name(f"L{self.k}.{name}"))
            sym.mark_born(q)
            c.data.setdefault("havocked", set()).add(id(q))
            return q
        if hasattr(value, "__havoc__") and sp is None:
            value.__havoc__(f"L{self.k}.{name}")
            c.data.setdefault("havocked", set()).add(id(value))
            return value
        if sp is None:
            sp = ty.spec_of_value(value)
        if sp is None:
            if value is None:
                # a local that is None before the loop and assigned inside it: its value after an unknown
                # number of iterations is unknown; any use before it is assigned again is outside the subset
                return Poison(f"local {name!r} after loop {self.k} (declare its type in the loop contract)")
            if callable(value) or isinstance(value, (type, enum.Enum)):
                raise Unsupported(f"loop {self.k}: cannot havoc local {name!r} = {value!r}; "
                                  "declare its type in the loop contract")
            raise Unsupported(f"loop {self.k}: cannot havoc local {name!r} of type {type(value).__name__}; "
                              "declare its type in the loop contract")
        new = sp.fresh(c.fresh_name(f"L{self.k}.{name}"))
        c.data.setdefault("havocked", set()).add(id(new))
        c.data.setdefault("keepalive", []).append(new)
        return new

    def check_frame(self):
        """Every heap write in the body must hit an object that was havocked at the head."""
        c = cur()
        for obj, field in c.writes[self.mark:]:
            if _born(obj) > self.born_mark:
                continue
            if id(obj) not in self.havocked:
                raise Unsupported(f"loop {self.k} writes {field!r} of {obj!r}, which is not among the "
                                  "havocked locals; name it in the loop contract (modifies)")


def _born(obj):
    d = getattr(obj, "__dict__", None)
    return d.get("_born", 0) if d is not None else 0


def _snap_env(env):
    from . import engine

    memo = {}
    return Namespace({k: engine.snapshot(v, memo) for k, v in env.items()
                      if not isinstance(v, Poison) and (isinstance(v, (SymObj, SymMap, SymSet)) or hasattr(v, "__snapshot__"))})


def havoc_obj(o: SymObj, fields, prefix):
    c = cur()
    c.data.setdefault("havocked", set()).add(id(o))
    for f, v in list(o._fields.items()):
        if fields is not None and f not in fields:
            continue
        if isinstance(v, SymObj) and not v._frozen:
            havoc_obj(v, None, f"{prefix}.{f}")
        elif isinstance(v, (SymMap, SymSet)):
            havoc_container(v, f"{prefix}.{f}")
        elif hasattr(v, "__havoc__"):
            v.__havoc__(f"{prefix}.{f}")
            c.data["havocked"].add(id(v))
        else:
            sp = ty.spec_of_value(v)
            if sp is None:
                if v is None or not is_symbolic(v) and not isinstance(v, (list, dict, set)):
                    continue
                raise Unsupported(f"cannot havoc field {f} of {o!r}")
            o._fields[f] = sp.fresh(c.fresh_name(f"{prefix}.{f}"))


def havoc_container(v, prefix):
    c = cur()
    c.data.setdefault("havocked", set()).add(id(v))
    v.has = c.fresh(c.fresh_name(prefix + ".has"), v.has.sort)
    if isinstance(v, SymMap):
        v.state = v.spec.val.arr_fresh(c.fresh_name(prefix + ".val"), v.ksort)


class ForLoop(_LoopBase):
    def __init__(self, rt, k, it, env, names, acc=None):
        super().__init__(rt, k, env, names)
        self.acc_name = acc
        it = sym.resolve(it)
        self.entry_env = Namespace({kk: vv for kk, vv in env.items() if kk != "__vc__"})
        self.pre = _snap_env(env)
        q = as_symseq(it)
        if q is None:
            self.concrete = it
            return
        self.sym = True
        self.seq = q
        self.n = q.length
        c = cur()
        c.prove(f"loop{k}.entry", self._inv(env, 0), kind="loop")

    def items(self):
        if not self.sym:
            yield from self.concrete
            return
        c = cur()
        flag = c.fresh(f"loop{self.k}.iterate", BOOL)
        c.data.setdefault("havocked", set())
        self.havocked = c.data["havocked"]
        self.mark = len(c.writes)
        self.born_mark = c.data.get("born", 0)
        if c.fork(flag):
            self.mode = "iter"
            it = c.fresh(f"loop{self.k}.i", INT)
            c.pc.append(tm.And(tm.Le(tm.mk_int(0), it), tm.Lt(it, self.n)))
            self.i = it
            self.head_index = len(c.trace)
            self.current = self.seq.elem(it)
            c.data.setdefault("loops", {})[self.k] = self
            yield self.current
            raise Unsupported(f"loop {self.k}: body fell through without reaching end_body")
        self.mode = "exit"
        self.i = self.n
        return

    def assume_inv(self, env):
        cur().assume(self._inv(env, wrap_int(self.i), "assume"))
        self.iter_pre = _snap_env(env)

    def end_body(self, env):
        c = cur()
        self.check_frame()
        if self.spec is not None and self.spec.step_post is not None:
            ns = self._env(env, wrap_int(self.i))
            ns.__dict__["iter_pre"] = self.iter_pre
            ns.__dict__["current"] = self.current
            ns.__dict__["iter_trace"] = c.trace[self.head_index:]
            c.prove(f"loop{self.k}.iteration_post", self.spec.step_post(ns), kind="loop")
        c.prove(f"loop{self.k}.step", self._inv(env, wrap_int(tm.Add(self.i, tm.mk_int(1)))), kind="loop")
        raise PathEnd()

    def assume_exit(self, env):
        cur().assume(self._inv(env, wrap_int(self.n), "assume"))


class WhileLoop(_LoopBase):
    def __init__(self, rt, k, env, names):
        super().__init__(rt, k, env, names)
        self.sym = True
        self.entry_env = Namespace({kk: vv for kk, vv in env.items() if kk != "__vc__"})
        self.pre = _snap_env(env)
        self.first = True
        c = cur()
        c.prove(f"loop{k}.entry", self._inv(env, 0), kind="loop")

    def head(self, env):
        c = cur()
        if self.first:
            self.first = False
            c.data.setdefault("havocked", set())
            self.havocked = c.data["havocked"]
            self.mark = len(c.writes)
            self.born_mark = c.data.get("born", 0)
            self.i = c.fresh(f"loop{self.k}.i", INT)
            c.pc.append(tm.Ge(self.i, tm.mk_int(0)))
            if self.spec is not None and self.spec.decreases is not None:
                self._dec_env = None
            return
        self.check_frame()
        if self.spec is not None and self.spec.step_post is not None:
            ns = self._env(env, wrap_int(self.i))
            ns.__dict__["iter_pre"] = self.iter_pre
            ns.__dict__["iter_trace"] = c.trace[self.head_index:]
            c.prove(f"loop{self.k}.iteration_post", self.spec.step_post(ns), kind="loop")
        c.prove(f"loop{self.k}.step", self._inv(env, wrap_int(tm.Add(self.i, tm.mk_int(1)))), kind="loop")
        if self.spec is not None and self.spec.decreases is not None:
            new = I(self.spec.decreases(self._env(env, wrap_int(tm.Add(self.i, tm.mk_int(1))))))
            c.prove(f"loop{self.k}.decreases", tm.And(tm.Lt(new, self.dec0), tm.Ge(self.dec0, tm.mk_int(0))),
                    kind="loop")
        raise PathEnd()

    def assume_inv(self, env):
        c = cur()
        c.assume(self._inv(env, wrap_int(self.i), "assume"))
        self.iter_pre = _snap_env(env)
        self.head_index = len(c.trace)
        if self.spec is not None and self.spec.decreases is not None:
            self.dec0 = I(self.spec.decreases(self._env(env, wrap_int(self.i))))


# --------------------------------------------------------------------------- __vc__


class Coro:
    """The coroutine object of a transformed `async def`: the body runs when it is awaited."""

    def __init__(self, fn, args, kwargs):
        self.fn, self.args, self.kwargs = fn, args, kwargs
        self.started = False

    def run(self):
        if self.started:
            raise Unsupported("coroutine awaited twice")
        self.started = True
        return self.fn(*self.args, **self.kwargs)

    def close(self):
        self.started = True


class StarArgs:
    """All elements of a symbolic collection, passed with `*`."""

    def __init__(self, collection):
        self.collection = collection


class AsyncCtx:
    def __init__(self, inner):
        self.inner = inner

    def __enter__(self):
        f = getattr(self.inner, "__aenter__", None)
        if f is None:
            return self.inner.__enter__()
        return f()

    def __exit__(self, et, ev, tb):
        f = getattr(self.inner, "__aexit__", None)
        if f is None:
            return self.inner.__exit__(et, ev, tb)
        return f(et, ev, tb)


class RT:
    """The object bound to `__vc__` in the globals of a transformed function."""

    def __init__(self, loop_specs=None, dict_specs=None):
        self.loop_specs = loop_specs or {}

    # identity, negation, membership
    def is_(self, a, b):
        return sym.is_(a, b)

    def boolop(self, is_or, *thunks):
        c = cur()
        if not c.nofork:
            v = None
            for t in thunks:
                v = t()
                if (v if is_or else not v):  # the decision Python makes (a symbolic truth value forks here)
                    return v
            return v
        # speculative evaluation: no decisions.  Join boolean operands into one term; facts recorded while
        # evaluating an operand hold only if the operands before it let evaluation get there
        terms, reach = [], tm.TRUE
        last = None
        for t in thunks:
            n0 = len(c.pc)
            try:
                v = t()
            except (sym.Speculation, Unsupported, Infeasible, PathEnd):
                raise
            except Exception:  # noqa: BLE001  (an operand Python would perhaps not have evaluated)
                raise sym.Speculation() from None
            facts = c.pc[n0:]
            del c.pc[n0:]
            for f in facts:
                c.pc.append(tm.Implies(reach, f))
            last = v
            if isinstance(v, bool):
                if v == is_or:
                    terms.append(tm.mk_bool(v))
                    break
                continue
            if not isinstance(v, SymBool):
                if not terms and not is_symbolic(v) and not hasattr(v, "__symtruth__"):
                    if bool(v) == is_or:
                        return v
                    continue
                raise sym.Speculation()
            terms.append(v.t)
            reach = tm.And(reach, tm.Not(v.t) if is_or else v.t)
        if not terms:
            return last
        return wrap_bool(tm.Or(*terms) if is_or else tm.And(*terms))

    def not_(self, a):
        if isinstance(a, SymBool):
            return ~a
        if is_symbolic(a) or hasattr(a, "__symtruth__"):
            return wrap_bool(tm.Not(B(a)))
        return not a

    def in_(self, a, b):
        b = sym.resolve(b)
        if isinstance(b, (SymMap, SymSet, SymStr, SymBytes)):
            return b.__contains__(a)
        if isinstance(b, (SymKeys,)):
            return b.m.__contains__(a)
        if isinstance(b, (tuple, list, set, frozenset, dict)) and (
                is_symbolic(a) or any(is_symbolic(x) for x in b)):
            if isinstance(a, SymEnum) and not any(is_symbolic(x) for x in b):
                return wrap_bool(tm.Or(*[B(a == x) for x in b]))
            return wrap_bool(tm.Or(*[B(sym.sym_eq(a, x)) for x in b]))
        if isinstance(b, SymSeq):
            raise Unsupported("`in` on a symbolic sequence")
        return a in b

    # conditional expressions: merged without a decision when both branches are effect free
    def ite(self, c, fa, fb):
        if not is_symbolic(c) and not hasattr(c, "__symtruth__"):
            return fa() if c else fb()
        ctx = cur()
        ct = B(c)
        if ct.is_lit:
            return fa() if tm.litval(ct) else fb()
        kn = ctx.known.get(ct.s)
        if kn is not None:
            return fa() if kn else fb()
        marks = (len(ctx.pc), len(ctx.obligations), len(ctx.trace), len(ctx.writes), dict(ctx.counters),
                 dict(ctx.known))

        def spec(f, guard):
            n0 = len(ctx.pc)
            ctx.nofork += 1
            try:
                v = f()
            finally:
                ctx.nofork -= 1
            if len(ctx.obligations) != marks[1] or len(ctx.writes) != marks[3] or any(
                    e.kind not in ("call", "await", "inline") for e in ctx.trace[marks[2]:]):
                raise sym.Speculation()
            facts = ctx.pc[n0:]
            del ctx.pc[n0:]
            for f_ in facts:
                ctx.pc.append(tm.Implies(guard, f_))
            return v

        try:
            a = spec(fa, ct)
            b = spec(fb, tm.Not(ct))
            m = merge_values(ct, a, b)
            if m is not NotImplemented:
                return m
        except sym.Speculation:
            pass
        # fall back to a real decision
        if len(ctx.writes) != marks[3]:
            raise Unsupported("conditional expression with heap effects in a branch")
        del ctx.pc[marks[0]:]
        del ctx.obligations[marks[1]:]
        del ctx.trace[marks[2]:]
        ctx.counters = marks[4]
        ctx.known = marks[5]
        return fa() if ctx.fork(ct) else fb()

    # strings
    def fmt(self, value, conversion, spec):
        value = sym.resolve(value) if isinstance(value, SymOpt) else value
        if not is_symbolic(value) and not is_symbolic(spec) and not isinstance(value, SymObj):
            if conversion == 114:
                value = repr(value)
            elif conversion == 115:
                value = str(value)
            elif conversion == 97:
                value = ascii(value)
            return format(value, spec)
        if isinstance(value, SymStr) and spec == "" and conversion in (-1, 115):
            return value
        return self.opaque_str("fmt", value, conversion, spec)

    def opaque_str(self, what, *args):
        """A string that is a function of the arguments (content not interpreted)."""
        c = cur()
        ts = []
        for a in args:
            if isinstance(a, (SymStr, SymBytes, str, bytes)):
                ts.append(S(a))
            elif isinstance(a, (SymInt, SymBool, SymEnum, int)):
                ts.append(I(a))
            else:
                # identity of other objects is not tracked: fresh string
                return wrap_str(c.fresh(what, STR))
        f = c.decls.fun(f"{what}_" + "".join("s" if t.sort == STR else "i" for t in ts),
                        [t.sort for t in ts], STR)
        return wrap_str(f(*ts))

    def join(self, sep, parts):
        """`sep.join(parts)` (also used for os.path.join-like methods of other objects)."""
        if not isinstance(sep, (str, SymStr)):
            return sep.join(parts)
        if isinstance(parts, SymSeq):
            return self.opaque_str("join")
        parts = builtins.list(parts)
        if not is_symbolic(sep) and not any(is_symbolic(p) for p in parts):
            return sep.join(parts)
        out = []
        for k, p in enumerate(parts):
            if k:
                out.append(S(sep))
            out.append(S(p))
        return wrap_str(tm.Concat(*out)) if out else ""

    def fstr(self, parts):
        if all(isinstance(p, str) for p in parts):
            return "".join(parts)
        return wrap_str(tm.Concat(*[S(p) for p in parts]))

    # displays
    def mkdict(self, keys, vals, stars):
        if any(stars):
            out = {}
            for k, v, s in zip(keys, vals, stars):
                if s:
                    if is_symbolic(v):
                        raise Unsupported("** of a symbolic map in a dict display")
                    out.update(v)
                else:
                    out[k] = v
            return out
        if any(is_symbolic(k) and not isinstance(k, SymEnum) for k in keys):
            if len(keys) == 1:
                # {k: v} with a symbolic key: a one-entry symbolic map
                ksp, vsp = ty.spec_of_value(keys[0]), ty.spec_of_value(vals[0])
                if ksp is not None and vsp is not None:
                    m = ty.MapOf(ksp, vsp).empty(cur().fresh_name("dict1"))
                    m[keys[0]] = vals[0]
                    sym.mark_born(m)
                    return m
            raise Unsupported("dict display with symbolic keys")
        return dict(zip(keys, vals))

    def mkset(self, elts):
        if any(is_symbolic(e) and not isinstance(e, SymEnum) for e in elts):
            raise Unsupported("set display with symbolic elements")
        return set(elts)

    def comp(self, kind, f, it, cond):
        it = sym.resolve(it)
        q = as_symseq(it)
        if q is None:
            if isinstance(it, (list, tuple)) and cond is None and kind in ("list", "gen"):
                return [f(x) for x in it]
            items = []
            for x in it:
                if cond is not None:
                    cv = cond(x)
                    if not cv:
                        continue
                items.append(f(x))
            if kind in ("list", "gen"):
                return items
            if kind == "set":
                return self.mkset(items) if not any(is_symbolic(e) for e in items) else _sym_set_from(items)
            if kind == "dict":
                if any(is_symbolic(k) for k, _ in items):
                    raise Unsupported("dict comprehension producing symbolic keys")
                return dict(items)
        if kind in ("list", "gen") and cond is None:
            # a mapped sequence of the same length
            mq = SymSeq(lambda i: f(q.elem(i)), q.length, name=f"map({q.name})")
            mq.mapped = True
            return mq
        if kind in ("list", "gen"):
            # a filtered (and mapped) sequence: unknown length, every element comes from a source
            # position that satisfies the condition (completeness of the filter is not modelled)
            c = cur()
            n = c.fresh(c.fresh_name("filtered.len"), INT)
            c.pc.append(tm.And(tm.Ge(n, tm.mk_int(0)), tm.Le(n, q.length)))
            pos = c.fresh(c.fresh_name("filtered.pos"), tm.arr(INT, INT))

            def elem(i, q=q, pos=pos, f=f, cond=cond):
                j = tm.Select(pos, i, INT)
                c2 = cur()
                c2.pc.append(tm.And(tm.Le(tm.mk_int(0), j), tm.Lt(j, q.length)))
                x = q.elem(j)
                c2.pc.append(B(cond(x)))
                return f(x)

            fq = SymSeq(elem, n, name=f"filter({q.name})")
            fq.source = q
            # witness: a non-empty result has a first element, which comes from a position satisfying the condition
            n1 = len(c.pc)
            try:
                c.nofork += 1
                elem(tm.mk_int(0))
                w = c.pc[n1:]
                del c.pc[n1:]
                if w:
                    c.pc.append(tm.Implies(tm.Ge(n, tm.mk_int(1)), tm.And(*w)))
            except sym.Speculation:
                del c.pc[n1:]
            finally:
                c.nofork -= 1
            # completeness: if some source position satisfies the condition, the result is not empty
            jv = tm.Var(c.fresh_name("j!bound"), INT)
            n0 = len(c.pc)
            ob0, tr0, cnt0 = len(c.obligations), len(c.trace), dict(c.counters)
            try:
                c.nofork += 1
                xv = q.elem(jv)
                cv = B(cond(xv))
                side = c.pc[n0:]
                del c.pc[n0:]
                body = tm.Implies(tm.And(tm.Le(tm.mk_int(0), jv), tm.Lt(jv, q.length), *side, cv),
                                  tm.Ge(n, tm.mk_int(1)))
                c.pc.append(tm.ForAll([(jv.s, INT)], body))
            except sym.Speculation:
                del c.pc[n0:]
            finally:
                c.nofork -= 1
                # obligations / events produced while building the quantified fact belong to no real element
                del c.obligations[ob0:]
                del c.trace[tr0:]
            return fq
        hook = cur().data.get("comp_hook")
        if hook is not None:
            r = hook(kind, f, q, cond)
            if r is not NotImplemented:
                return r
        if kind == "set":
            return _set_comp(f, q, cond)
        if kind == "dict":
            return _dict_comp(f, q, cond)
        raise Unsupported(f"{kind} comprehension over a symbolic iterable")

    # loops
    def loop(self, k, it, env, names, acc=None):
        return ForLoop(self, k, it, env, names, acc)

    def wloop(self, k, env, names):
        return WhileLoop(self, k, env, names)

    # generators (run eagerly; the yielded values are collected and recorded as events)
    def gen_begin(self):
        c = cur()
        st = c.data.setdefault("gen_stack", [])
        g = []
        st.append(g)
        return g

    def gen_leave(self, g):
        st = cur().data.get("gen_stack", [])
        if st and st[-1] is g:
            st.pop()

    def gen_end(self, g):
        return g

    def yield_(self, v):
        c = cur()
        st = c.data.get("gen_stack")
        if not st:
            raise Unsupported("yield outside a generator frame")
        st[-1].append(v)
        if len(st) == 1 and c.data.get("inline_depth", 0) == 0:
            c.event("yield", value=v)
        return None

    def yield_from(self, it):
        it = sym.resolve(it)
        q = as_symseq(it)
        if q is not None:
            raise Unsupported("yield from a symbolic iterable")
        for v in it:
            self.yield_(v)
        return None

    def star(self, x):
        """`*x` in a call: a symbolic collection is passed as one StarArgs marker."""
        x = sym.resolve(x)
        if as_symseq(x) is not None or isinstance(x, (SymMap, SymSet, SymSeq)):
            return [StarArgs(x)]
        return x

    # async
    def coroutine_function(self, fn):
        import functools

        @functools.wraps(fn)
        def make(*a, **k):
            return Coro(fn, a, k)

        make.__vc_impl__ = fn
        return make

    def await_(self, x):
        c = cur()
        import inspect

        if isinstance(x, Coro):
            c.event("await")
            if c.await_hook is not None:
                c.await_hook()
            return x.run()

        if inspect.iscoroutine(x):
            x.close()
            raise Unsupported("await of a real coroutine (callee was not stubbed or transformed)")
        c.event("await")
        if c.await_hook is not None:
            c.await_hook()
        return x

    def actx(self, x):
        return AsyncCtx(x)


def _sym_set_from(items):
    raise Unsupported("set of symbolic elements")


def merge_values(c, a, b):
    """The value `a if c else b` as one symbolic value, or NotImplemented."""
    if a is b:
        return a
    if a is None and b is None:
        return None
    if a is None or b is None or isinstance(a, SymOpt) or isinstance(b, SymOpt):
        an = a.isnone if isinstance(a, SymOpt) else tm.mk_bool(a is None)
        bn = b.isnone if isinstance(b, SymOpt) else tm.mk_bool(b is None)
        ap = a.payload if isinstance(a, SymOpt) else a
        bp = b.payload if isinstance(b, SymOpt) else b
        if ap is None:
            pay = bp
        elif bp is None:
            pay = ap
        else:
            pay = merge_values(c, ap, bp)
            if pay is NotImplemented:
                return NotImplemented
        return SymOpt(tm.Ite(c, an, bn), pay)
    if isinstance(a, (bool, SymBool)) and isinstance(b, (bool, SymBool)):
        return wrap_bool(tm.Ite(c, B(a), B(b)))
    if isinstance(a, SymEnum) or isinstance(b, SymEnum) or (isinstance(a, enum.IntEnum) and isinstance(b, enum.IntEnum)):
        cls = a.cls if isinstance(a, SymEnum) else type(a)
        clsb = b.cls if isinstance(b, SymEnum) else type(b)
        if cls is not clsb:
            return NotImplemented
        return sym.wrap_enum(cls, tm.Ite(c, I(a), I(b)))
    if isinstance(a, (int, SymInt)) and isinstance(b, (int, SymInt)):
        return wrap_int(tm.Ite(c, I(a), I(b)))
    if isinstance(a, (str, SymStr)) and isinstance(b, (str, SymStr)):
        t = tm.Ite(c, S(a), S(b))
        for x in (a, b):
            if isinstance(x, SymStr) and type(x) is not SymStr:
                return type(x)(t)
        return wrap_str(t)
    if isinstance(a, (bytes, SymBytes)) and isinstance(b, (bytes, SymBytes)):
        return sym.wrap_bytes(tm.Ite(c, S(a), S(b)))
    if isinstance(a, sym.SymFlag) or isinstance(b, sym.SymFlag) or (isinstance(a, enum.Flag) and isinstance(b, enum.Flag)):
        cls = a.cls if isinstance(a, sym.SymFlag) else type(a)
        fa_, fb_ = sym.SymFlag.of(cls, a), sym.SymFlag.of(cls, b)
        return sym.wrap_flag(cls, {m: tm.Ite(c, fa_.bits[m], fb_.bits[m]) for m in fa_.bits})
    if isinstance(a, SymObj) and isinstance(b, SymObj) and a._cls is b._cls and a._frozen and b._frozen \
            and set(a._fields) == set(b._fields):
        fields = {}
        for k in a._fields:
            m = merge_values(c, a._fields[k], b._fields[k])
            if m is NotImplemented:
                return NotImplemented
            fields[k] = m
        return SymObj(a._cls, fields, name=a._name, frozen=True, eq_fields=a._eq_fields)
    if isinstance(a, sym.SymOpaque) and isinstance(b, sym.SymOpaque) and a.t.sort == b.t.sort:
        return sym.SymOpaque(tm.Ite(c, a.t, b.t))
    return NotImplemented


def _probe_spec(v):
    sp = ty.spec_of_value(v)
    if sp is None and isinstance(v, sym.SymObj):
        from . import engine

        sp = engine.CLASS_SPECS.get(v._cls)
    return sp


def _set_comp(f, q, cond):
    """{f(x) for x in q if cond(x)}: a fresh set; membership of a key implies a witness position."""
    c = cur()
    j0 = c.fresh(c.fresh_name("setcomp.probe"), INT)
    n_pc = len(c.pc)
    sample = f(q.elem(j0))
    del c.pc[n_pc:]
    ksp = _probe_spec(sample)
    if ksp is None or ksp.scalar_sort is None:
        raise Unsupported("set comprehension with elements of unknown sort")
    if isinstance(sample, sym.SymStr) and type(sample) is not sym.SymStr:
        kwrap = type(sample)
        ksp2 = ksp
        ksp = type("PS", (type(ksp),), dict(wrap=lambda self, t: kwrap(t), fresh=lambda self, n: kwrap(cur().fresh(n, STR))))()
    st = ty.SetOf(ksp).fresh(c.fresh_name("setcomp"))
    wit = c.decls.fun(c.fresh_name("setcomp.witness"), [ksp.scalar_sort], INT)

    def fact(kt, q=q, f=f, cond=cond, has=st.has):
        j = wit(kt)
        c2 = cur()
        n0 = len(c2.pc)
        x = q.elem(j)
        val = f(x)
        side = c2.pc[n0:]
        del c2.pc[n0:]
        body = [tm.Le(tm.mk_int(0), j), tm.Lt(j, q.length), tm.Eq(ksp.term(val), kt)] + side
        if cond is not None:
            n1 = len(c2.pc)
            cv = B(cond(x))
            body += c2.pc[n1:]
            del c2.pc[n1:]
            body.append(cv)
        return tm.Implies(tm.Select(has, kt, BOOL), tm.And(*body))

    st.point_facts.append(fact)
    sym.mark_born(st)
    return st


def _dict_comp(f, q, cond):
    """{k(x): v(x) for x in q}: a fresh map; a present key has a witness position whose pair it holds."""
    c = cur()
    j0 = c.fresh(c.fresh_name("dictcomp.probe"), INT)
    n_pc = len(c.pc)
    forks = len(c.taken)
    k0, v0 = f(q.elem(j0))
    del c.pc[n_pc:]
    if len(c.taken) != forks:
        raise Unsupported("dict comprehension whose element expression branches on a symbolic condition; "
                          "supply a comp_hook in the contract")
    ksp, vsp = _probe_spec(k0), _probe_spec(v0)
    if ksp is None or vsp is None:
        raise Unsupported("dict comprehension with unknown key or value sort")
    m = ty.MapOf(ksp, vsp).fresh(c.fresh_name("dictcomp"))
    m.value_invariant = None
    wit = c.decls.fun(c.fresh_name("dictcomp.witness"), [ksp.scalar_sort], INT)

    def fact(kt, q=q, f=f, cond=cond, m=m, has=m.has, state=m.state):
        j = wit(kt)
        c2 = cur()
        n0 = len(c2.pc)
        x = q.elem(j)
        kk, vv = f(x)
        side = c2.pc[n0:]
        del c2.pc[n0:]
        stored = vsp.arr_select(state, kt)
        body = [tm.Le(tm.mk_int(0), j), tm.Lt(j, q.length), tm.Eq(ksp.term(kk), kt),
                B(sym.sym_eq_val(stored, vv))] + side
        return tm.Implies(tm.Select(has, kt, BOOL), tm.And(*body))

    m.point_facts.append(fact)
    sym.mark_born(m)
    return m


def _seq_concat(a, b):
    """list + list for symbolic sequences (elements merged by position)."""
    if isinstance(b, (list, tuple)):
        if not b:
            return a
        raise Unsupported("concatenation of a symbolic and a concrete list")
    if not isinstance(b, SymSeq):
        return NotImplemented
    la = a.length

    def elem(i):
        c = tm.Lt(i, la)
        x = a.elem(i)
        y = b.elem(tm.Sub(i, la))
        m = merge_values(c, x, y)
        if m is NotImplemented:
            raise Unsupported("concatenation of sequences whose elements cannot be merged")
        return m

    q = SymSeq(elem, tm.Add(la, b.length), name=f"({a.name}+{b.name})")
    q.parts = (a, b)  # every element of a part is an element of the concatenation
    return q


def _seq_rconcat(a, b):
    if isinstance(b, (list, tuple)) and not b:
        return a
    return NotImplemented


SymSeq.__add__ = _seq_concat
SymSeq.__radd__ = _seq_rconcat


# --------------------------------------------------------------------------- builtins


def v_len(x):
    x = sym.resolve(x)
    if hasattr(type(x), "__symlen__"):
        return x.__symlen__()
    if isinstance(x, (SymStr, SymBytes, SymSeq)):
        return x.sym_len()
    if isinstance(x, (SymMap, SymSet)):
        _, cnt = key_order(x.has, x.ksort, True)
        return wrap_int(cnt)
    return builtins.len(x)


def v_sorted(x, *, key=None, reverse=False):
    x = sym.resolve(x)
    if isinstance(x, SymSeq) and not getattr(x, "sorted", False) or (
            isinstance(x, (SymMap, SymSet, SymKeys, SymItems, SymSeq)) and (key is not None or reverse)):
        # some permutation of the elements (the order itself is not modelled)
        src = as_symseq(x)
        c = cur()
        perm = c.fresh(c.fresh_name("perm"), tm.arr(INT, INT))

        def pelem(i, src=src, perm=perm):
            j = tm.Select(perm, i, INT)
            cur().pc.append(tm.And(tm.Le(tm.mk_int(0), j), tm.Lt(j, src.length)))
            return src.elem(j)

        pq = ty.SeqOf(ty.Int).empty() if False else SymSeq(pelem, src.length, name=f"sorted({src.name})")
        pq.source = src
        return pq
    q = as_symseq(x, sorted_=True) if isinstance(x, (SymMap, SymSet, SymKeys, SymItems, SymSeq)) else None
    if q is not None:
        return q
    x = list(x)
    if builtins.len(x) <= 1:
        return x
    if any(is_symbolic(e) for e in x):
        if builtins.len(x) == 2 and key is None and not reverse:
            a, b = x
            if a <= b:
                return [a, b]
            return [b, a]
        raise Unsupported("sorted() of a list with symbolic elements")
    return builtins.sorted(x, key=key, reverse=reverse)


_CLASS_HOOK = None  # installed by the engine: (obj, cls) -> bool or NotImplemented


def v_isinstance(obj, cls):
    obj = sym.resolve(obj)
    clss = cls if isinstance(cls, tuple) else (cls,)
    if isinstance(obj, ty.Other.Thing):
        return False
    if hasattr(builtins.type(obj), "__syminstance__"):
        rs = [obj.__syminstance__(builtins.getattr(k, "__vc_real__", k)) for k in clss]
        if builtins.all(isinstance(r, bool) for r in rs):
            return builtins.any(rs)
        return wrap_bool(tm.Or(*[B(r) for r in rs]))
    if isinstance(obj, SymObj):
        for k in clss:
            k = getattr(k, "__vc_real__", k)
            real = obj._cls
            if isinstance(real, type) and isinstance(k, type) and issubclass(real, k):
                return True
        return False
    table = {SymStr: str, SymBytes: bytes, SymInt: int, SymBool: bool, SymMap: dict, SymSet: set,
             SymSeq: list}
    for pt, real in table.items():
        if isinstance(obj, pt):
            for k in clss:
                k = getattr(k, "__vc_real__", k)
                if isinstance(k, type) and issubclass(real, k):
                    return True
                import collections.abc as cabc

                if pt is SymMap and k in (cabc.Mapping, cabc.MutableMapping):
                    return True
            return False
    if isinstance(obj, SymEnum):
        return any(isinstance(k, type) and issubclass(obj.cls, k) for k in clss)
    clss = tuple(getattr(k, "__vc_real__", k) for k in clss)
    return builtins.isinstance(obj, clss)


def v_int(x=0, *a):
    x = sym.resolve(x)
    if isinstance(x, SymInt):
        return x
    if isinstance(x, SymBool):
        return wrap_int(I(x))
    if isinstance(x, SymEnum):
        return x.value
    if is_symbolic(x):
        raise Unsupported("int() of a symbolic non-integer")
    return builtins.int(x, *a)


def _int_from_bytes(b, byteorder="big", *, signed=False):
    if isinstance(b, SymBytes):
        if byteorder != "big" or signed:
            raise Unsupported("int.from_bytes: only unsigned big endian")
        c = cur()
        # only 8-byte fields are modelled; that the operand has 8 bytes is an obligation
        c.prove(c.fresh_name("int.from_bytes.width8"), tm.Eq(tm.Len(b.t), tm.mk_int(8)), kind="pre")
        return wrap_int(sym.be_decode(b.t, 8))
    return builtins.int.from_bytes(b, byteorder, signed=signed)


v_int.from_bytes = _int_from_bytes


def v_bool(x=False):
    if is_symbolic(x):
        return wrap_bool(B(x))
    return builtins.bool(x)


def v_str(x=""):
    if isinstance(x, SymStr):
        return x
    if is_symbolic(x):
        return RT().opaque_str("str", x)
    return builtins.str(x)


def v_bytes(x=b"", *a):
    if isinstance(x, SymBytes):
        return x
    if isinstance(x, list) and builtins.len(x) == 1 and isinstance(x[0], (SymInt, SymBool)):
        t = I(x[0])
        c = cur()
        if c.fork(tm.Or(tm.Lt(t, tm.mk_int(0)), tm.Ge(t, tm.mk_int(256)))):
            raise ValueError("bytes must be in range(0, 256)")
        return sym.wrap_bytes(tm.FromCode(t))
    if is_symbolic(x):
        raise Unsupported("bytes() of a symbolic value")
    return builtins.bytes(x, *a)


def _extreme(coll, is_min):
    """min / max of a symbolic collection of integers: some element (witness position) that bounds every element;
    ValueError on an empty collection."""
    if isinstance(coll, SymValues):
        # the ascending enumeration of the keys (a function of the key set): contracts can name a key's position
        mp = coll.m
        q = keys_seq(mp, True, wrap_elem=lambda k: mp.value_at(k))
    elif isinstance(coll, (SymMap, SymSet, SymKeys)):
        q = keys_seq(coll.m if isinstance(coll, SymKeys) else coll, True)
    else:
        q = as_symseq(coll)
    if q is None:
        raise Unsupported("min / max of this symbolic collection")
    c = cur()
    if c.fork(tm.Le(q.length, tm.mk_int(0))):
        raise ValueError(("min" if is_min else "max") + "() arg is an empty sequence")
    w = c.fresh(c.fresh_name("extreme.witness"), INT)
    c.pc.append(tm.And(tm.Le(tm.mk_int(0), w), tm.Lt(w, q.length)))
    m = q.elem(w)
    if not isinstance(m, (SymInt, int)) or isinstance(m, bool):
        raise Unsupported("min / max over non-integer elements")
    jv = tm.Var(c.fresh_name("j!bound"), INT)
    mt = I(m)
    c.pc.append(quantified([(jv.s, INT)], lambda: (tm.Le(mt, I(q.elem(jv))) if is_min else tm.Ge(mt, I(q.elem(jv)))),
                           guard=tm.And(tm.Le(tm.mk_int(0), jv), tm.Lt(jv, q.length))))
    return wrap_int(mt)


def v_min(*args, **kw):
    if builtins.len(args) == 2 and not kw and any(isinstance(a, SymInt) for a in args):
        return wrap_int(tm.Min(I(args[0]), I(args[1])))
    if builtins.len(args) == 1 and not kw and isinstance(sym.resolve(args[0]), (SymSeq, SymMap, SymSet, SymKeys, SymValues)):
        return _extreme(sym.resolve(args[0]), True)
    return builtins.min(*args, **kw)


def v_max(*args, **kw):
    if builtins.len(args) == 2 and not kw and any(isinstance(a, (SymInt, SymEnum)) for a in args):
        return wrap_int(tm.Max(I(args[0]), I(args[1])))
    if builtins.len(args) == 1 and not kw and isinstance(sym.resolve(args[0]), (SymSeq, SymMap, SymSet, SymKeys, SymValues)):
        return _extreme(sym.resolve(args[0]), False)
    return builtins.max(*args, **kw)


def v_sum(it, start=0):
    it = sym.resolve(it)
    if isinstance(it, SymSeq):
        c = cur()
        j = c.fresh(c.fresh_name("sum.probe"), INT)
        n0 = len(c.pc)
        v = it.elem(j)
        del c.pc[n0:]
        if isinstance(v, int) and not isinstance(v, bool):
            return wrap_int(tm.Add(tm.Mul(tm.mk_int(v), it.length), I(start)))
        raise Unsupported("sum() over a symbolic sequence of non-constant terms")
    return builtins.sum(it, start)


def _truth(x):
    """Truth value of an element: an object without __bool__ / __len__ (a node reference) is true."""
    if isinstance(x, SymObj):
        return tm.TRUE
    return B(x)


def v_any(it):
    if hasattr(it, "__symany__"):
        return it.__symany__()
    if isinstance(it, SymSeq):
        # exact: true iff some position holds a true element (witness index), false iff every position holds a false one
        c = cur()
        b = c.fresh(c.fresh_name("any"), BOOL)
        try:
            c.nofork += 1
            w = c.fresh(c.fresh_name("any.witness"), INT)
            n0 = len(c.pc)
            tw = _truth(it.elem(w))
            side_w = c.pc[n0:]
            del c.pc[n0:]
            c.pc.append(tm.Implies(b, tm.And(tm.Le(tm.mk_int(0), w), tm.Lt(w, it.length), *side_w, tw)))
            jv = tm.Var(c.fresh_name("j!bound"), INT)
            c.pc.append(tm.Implies(tm.Not(b), quantified(
                [(jv.s, INT)], lambda: tm.Not(_truth(it.elem(jv))), guard=tm.And(tm.Le(tm.mk_int(0), jv), tm.Lt(jv, it.length)))))
        except sym.Speculation:
            pass  # the element test branches: the truth value stays unconstrained (over-approximation)
        finally:
            c.nofork -= 1
        return SymBool(b)
    it = builtins.list(it)
    if any(is_symbolic(x) for x in it):
        return wrap_bool(tm.Or(*[B(x) for x in it]))
    return builtins.any(it)


def v_all(it):
    if isinstance(it, SymSeq):
        c = cur()
        return SymBool(c.fresh(c.fresh_name("all"), BOOL))
    it = builtins.list(it)
    if any(is_symbolic(x) for x in it):
        return wrap_bool(tm.And(*[B(x) for x in it]))
    return builtins.all(it)


def v_dict(*a, **kw):
    a = tuple(sym.resolve(x) for x in a)
    if a and isinstance(a[0], SymMap):
        return a[0].copy_shallow()
    return builtins.dict(*a, **kw)


def v_set(*a):
    a = tuple(sym.resolve(x) for x in a)
    if a and isinstance(a[0], (SymSet,)):
        s = SymSet(a[0].ksort, a[0].has, a[0].kterm, a[0].kwrap, a[0].name)
        s.spec = a[0].spec
        return s
    if a and isinstance(a[0], (SymMap, SymKeys)):
        m = a[0].m if isinstance(a[0], SymKeys) else a[0]
        s = SymSet(m.ksort, m.has, m.kterm, m.kwrap, "keys(" + m.name + ")")
        s.spec = ty.SetOf(m.spec.key)
        return s
    if a and isinstance(a[0], SymSeq):
        return _set_comp(lambda x: x, a[0], None)
    return builtins.set(*a)


def v_list(*a):
    a = tuple(sym.resolve(x) for x in a)
    if a and isinstance(a[0], SymSeq):
        return a[0]
    if a and (is_symbolic(a[0]) or isinstance(a[0], (SymItems, SymKeys, SymValues)) or hasattr(a[0], "__symseq__")):
        q = as_symseq(a[0])
        if q is not None:
            return q
        raise Unsupported("list() of a symbolic value")
    return builtins.list(*a)


def v_tuple(*a):
    """tuple(x): a snapshot of a symbolic collection is the same immutable sequence that list(x) gives."""
    a = tuple(sym.resolve(x) for x in a)
    if a and (isinstance(a[0], SymSeq) or is_symbolic(a[0]) or isinstance(a[0], (SymItems, SymKeys, SymValues))):
        return v_list(*a)
    return builtins.tuple(*a)


def v_zip(*its, strict=False):
    """zip of symbolic sequences: the sequence of tuples of their elements (position by position)."""
    its = tuple(sym.resolve(x) for x in its)
    if not any(isinstance(x, SymSeq) or is_symbolic(x) or hasattr(x, "__symseq__") for x in its):
        return builtins.zip(*its, strict=strict)
    qs = []
    for x in its:
        q = as_symseq(x) if not isinstance(x, (list, tuple)) else None
        if q is None:
            raise Unsupported("zip of a symbolic sequence with something that is not one")
        qs.append(q)
    c = cur()
    n = qs[0].length
    for q in qs[1:]:
        if strict:
            if c.fork(tm.Ne(q.length, n)):
                raise ValueError("zip() arguments have different lengths")
        else:
            n = tm.Min(n, q.length)
    out = SymSeq(lambda i: tuple(q.elem(i) for q in qs), n, name="zip")
    for extra in ("sorted", "container"):
        if hasattr(qs[0], extra):
            setattr(out, extra, getattr(qs[0], extra))
    return out


def v_print(*a, **k):
    return None


_MISSING = object()


def v_getattr(obj, name, default=_MISSING):
    obj = sym.resolve(obj)
    if hasattr(type(obj), "__symgetattr__"):
        return obj.__symgetattr__(name, default, _MISSING)
    if is_symbolic(name):
        raise Unsupported("getattr with a symbolic name on a concrete object")
    if default is _MISSING:
        return builtins.getattr(obj, name)
    return builtins.getattr(obj, name, default)


def v_type(obj, *a):
    if a:
        return builtins.type(obj, *a)
    if hasattr(builtins.type(obj), "__symtype__"):
        return obj.__symtype__()
    if isinstance(obj, SymObj):
        return obj.__class__
    return builtins.type(obj)


def v_issubclass(cls, classinfo):
    if hasattr(builtins.type(cls), "__symsubclass__"):
        return cls.__symsubclass__(classinfo)
    cls = builtins.getattr(cls, "__vc_real__", cls)
    if isinstance(classinfo, tuple):
        classinfo = tuple(builtins.getattr(k, "__vc_real__", k) for k in classinfo)
    else:
        classinfo = builtins.getattr(classinfo, "__vc_real__", classinfo)
    return builtins.issubclass(cls, classinfo)


class EnumProxy:
    """An IntEnum class as seen from transformed code: calling it on a symbolic integer gives a
    symbolic member (the value is assumed to be in range: CHECK constraints of the schema)."""

    def __init__(self, real):
        self.__vc_real__ = real
        self.__name__ = real.__name__

    def __call__(self, v):
        v = sym.resolve(v)
        if isinstance(v, (SymInt, SymEnum)):
            t = I(v)
            cur().pc.append(tm.Or(*[tm.Eq(t, tm.mk_int(int(m.value))) for m in self.__vc_real__]))
            return sym.wrap_enum(self.__vc_real__, t)
        return self.__vc_real__(v)

    def __getattr__(self, name):
        return getattr(self.__vc_real__, name)

    def __iter__(self):
        return iter(self.__vc_real__)

    def __getitem__(self, k):
        return self.__vc_real__[k]


class _NoLog:
    def __getattr__(self, name):
        return lambda *a, **k: None


BUILTIN_OVERRIDES = dict(
    len=v_len, sorted=v_sorted, isinstance=v_isinstance, int=v_int, bool=v_bool, str=v_str,
    bytes=v_bytes, min=v_min, max=v_max, any=v_any, all=v_all, dict=v_dict, set=v_set, list=v_list,
    print=v_print, getattr=v_getattr, issubclass=v_issubclass, sum=v_sum, tuple=v_tuple, zip=v_zip,
)
v_type.__vc_real__ = type
BUILTIN_OVERRIDES["type"] = v_type
for _k, _real in (("int", int), ("bool", bool), ("str", str), ("bytes", bytes), ("dict", dict),
                  ("set", set), ("list", list), ("tuple", tuple), ("zip", zip)):
    BUILTIN_OVERRIDES[_k].__vc_real__ = _real


def seq_member_t(q, p) -> tm.T:
    """`p in q` for a symbolic sequence, as exists j. 0 <= j < len(q) and q[j] == p.  Instance facts that
    evaluating q[j] produces (they hold for every j) are assumed universally."""
    c = cur()
    jv = tm.Var(c.fresh_name("j!bound"), INT)
    n0 = len(c.pc)
    ob0, tr0 = len(c.obligations), len(c.trace)
    c.nofork += 1
    try:
        x = q.elem(jv)
    finally:
        c.nofork -= 1
        del c.obligations[ob0:]
        del c.trace[tr0:]
    side = c.pc[n0:]
    del c.pc[n0:]
    if side:
        c.pc.append(tm.ForAll([(jv.s, INT)], tm.And(*side)))
    return tm.Exists([(jv.s, INT)], tm.And(tm.Le(tm.mk_int(0), jv), tm.Lt(jv, q.length), B(sym.sym_eq(x, p))))


def quantified(bound, body_fn, guard=None):
    """A universally quantified formula whose body is built by running body_fn with the bound variables.  Evaluating
    the body (element accesses of symbolic sequences) may record instance facts `side` that are known to hold for the
    positions in range.  Without `guard` the result is forall. side => body, which is right for a *goal* and for
    bodies without side facts.  With `guard` (the in-range condition, as a function of nothing: a term over the bound
    variables) the result is the *assumption* form forall. guard => (side and body)."""
    c = cur()
    n0 = len(c.pc)
    ob0, tr0 = len(c.obligations), len(c.trace)
    c.nofork += 1
    try:
        body = B(body_fn())
    finally:
        c.nofork -= 1
        del c.obligations[ob0:]
        del c.trace[tr0:]
    side = c.pc[n0:]
    del c.pc[n0:]
    if guard is not None:
        return tm.ForAll(bound, tm.Implies(guard, tm.And(*side, body)))
    return tm.ForAll(bound, tm.Implies(tm.And(*side), body) if side else body)
