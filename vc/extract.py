"""Extraction of real functions from /repo's working tree and the mechanical transformation
that makes CPython execute them on symbolic values.

What the transformation changes (and nothing else):
  * decorators and annotations are dropped; `async def` becomes `def`; `await e` becomes
    `__vc__.await_(e)`; `async with` / `async for` become their synchronous forms on
    `__vc__.actx(e)` / the loop controller;
  * `a is b`, `a is not b` become `__vc__.is_(a, b)` / `__vc__.not_(...)`; `not e` becomes
    `__vc__.not_(e)` (so that negation of a symbolic boolean does not force a decision);
  * f-strings become `__vc__.fstr([...])`; dict / set displays and single-generator
    comprehensions become `__vc__.mkdict / mkset / comp(...)` calls;
  * every `for` loop and every `while` loop that has a loop contract is cut at its
    invariant by a loop controller (`__vc__.loop`), with the assigned locals havocked;
    loops over concrete iterables run natively through the same controller;
  * builtins such as len, sorted, isinstance are looked up in the execution globals,
    where pyvc supplies dual-mode versions.
Statement order, control flow, expressions, exception handling and calls are the source's.
"""

from __future__ import annotations

import ast
import hashlib
import importlib
import os
import sys

REPO = os.environ.get("VERIF_REPO", "/repo")


class ExtractError(Exception):
    pass


_src_cache: dict[str, tuple[str, ast.Module]] = {}


def read_module(relpath: str):
    path = os.path.join(REPO, relpath)
    if path not in _src_cache:
        try:
            with open(path) as fh:
                src = fh.read()
        except OSError as e:
            raise ExtractError(f"cannot read {relpath}: {e}") from None
        try:
            tree = ast.parse(src, filename=path)
        except SyntaxError as e:
            raise ExtractError(f"cannot parse {relpath}: {e}") from None
        _src_cache[path] = (src, tree)
    return _src_cache[path]


def find_def(relpath: str, qual: str):
    """Locate `Class.method`, `function` or `function.<nested>` in the module AST."""
    src, tree = read_module(relpath)
    node = tree
    for part in qual.split("."):
        found = None
        for child in ast.iter_child_nodes(node) if not isinstance(node, ast.Module) else node.body:
            if isinstance(child, (ast.FunctionDef, ast.AsyncFunctionDef, ast.ClassDef)) \
                    and child.name == part:
                found = child
                break
        if found is None and not isinstance(node, ast.Module):
            for child in ast.walk(node):
                if isinstance(child, (ast.FunctionDef, ast.AsyncFunctionDef, ast.ClassDef)) \
                        and child.name == part and child is not node:
                    found = child
                    break
        if found is None:
            renamed = _follow_rename(relpath, qual, tree)
            if renamed is not None:
                return src, renamed
            raise ExtractError(f"{relpath}::{qual} not found (missing {part!r})")
        node = found
    return src, node


# --------------------------------------------------------------------------- renamed functions and constants
#
# Sidecar contracts are keyed by name.  A function or SQL constant that is merely renamed is still the code the contract
# was written for: specs/function_shapes.json (written by tools/mkshapes.py from the tree the contracts were written
# against) records, per name under contract, a hash of the definition that does not depend on its name; when a name is
# not found, a definition in the same module (and class) with the recorded shape is taken instead.

RENAMED: dict = {}  # "relpath::old qual" -> new qual (for the report)
_SHAPES = None


def shapes():
    global _SHAPES
    if _SHAPES is None:
        import json

        p = os.path.join(os.path.dirname(os.path.dirname(os.path.abspath(__file__))), "specs", "function_shapes.json")
        try:
            with open(p) as fh:
                _SHAPES = json.load(fh)
        except (OSError, ValueError):
            _SHAPES = {}
    return _SHAPES


def shape_of(node) -> str:
    """Hash of a definition without its own name (and without its docstring and decorators)."""
    import copy

    n = copy.deepcopy(node)
    n.name = "_"
    n.decorator_list = []
    if n.body and isinstance(n.body[0], ast.Expr) and isinstance(getattr(n.body[0], "value", None), ast.Constant) \
            and isinstance(n.body[0].value.value, str):
        n.body = n.body[1:] or [ast.Pass()]
    return hashlib.sha256(ast.dump(n, include_attributes=False).encode()).hexdigest()[:16]


def _follow_rename(relpath, qual, tree):
    want = shapes().get("functions", {}).get(f"{relpath}::{qual}")
    if want is None:
        return None
    parts = qual.split(".")
    scope = tree
    for part in parts[:-1]:
        nxt = [c for c in (scope.body if hasattr(scope, "body") else []) if isinstance(c, ast.ClassDef) and c.name == part]
        if not nxt:
            return None
        scope = nxt[0]
    cands = [c for c in scope.body if isinstance(c, (ast.FunctionDef, ast.AsyncFunctionDef)) and shape_of(c) == want]
    if len(cands) != 1:
        return None
    RENAMED[f"{relpath}::{qual}"] = ".".join(parts[:-1] + [cands[0].name])
    return cands[0]


def source_hash(relpath: str, qual: str) -> str:
    src, node = find_def(relpath, qual)
    seg = ast.get_source_segment(src, node) or ""
    return hashlib.sha256(seg.encode()).hexdigest()[:16]


def module_name(relpath: str) -> str:
    return relpath[:-3].replace("/", ".")


def import_module(relpath: str):
    if REPO not in sys.path:
        sys.path.insert(0, REPO)
    return importlib.import_module(module_name(relpath))


def module_constant(relpath: str, name: str):
    """A module-level constant, evaluated from the working tree source (not site-packages)."""
    mod = import_module(relpath)
    f = getattr(mod, "__file__", "") or ""
    if not os.path.realpath(f).startswith(os.path.realpath(REPO)):
        raise ExtractError(f"{relpath} was imported from {f}, not from {REPO}")
    try:
        return getattr(mod, name)
    except AttributeError:
        pass
    # a renamed SQL constant: the module-level string whose normalised text is the recorded one
    want = shapes().get("constants", {}).get(f"{relpath}::{name}")
    if want is not None:
        cands = [k for k, v in vars(mod).items() if isinstance(v, str) and k.isupper() and const_shape(v) == want]
        if len(cands) == 1:
            RENAMED[f"{relpath}::{name}"] = cands[0]
            return getattr(mod, cands[0])
    raise ExtractError(f"{relpath}::{name} not found")


def const_shape(text: str) -> str:
    return hashlib.sha256(" ".join(text.split()).encode()).hexdigest()[:16]


# --------------------------------------------------------------------------- transformation


def _names_assigned(nodes) -> list[str]:
    out: list[str] = []

    def add(n):
        if n not in out:
            out.append(n)

    class V(ast.NodeVisitor):
        def visit_Name(self, node):
            if isinstance(node.ctx, (ast.Store, ast.Del)):
                add(node.id)

        def visit_FunctionDef(self, node):
            add(node.name)

        visit_AsyncFunctionDef = visit_FunctionDef

        def visit_ClassDef(self, node):
            add(node.name)

        def visit_Lambda(self, node):
            pass

        def visit_ListComp(self, node):
            pass

        visit_SetComp = visit_DictComp = visit_GeneratorExp = visit_ListComp

        def visit_ExceptHandler(self, node):
            if node.name:
                add(node.name)
            self.generic_visit(node)

        def visit_Import(self, node):
            for a in node.names:
                add((a.asname or a.name).split(".")[0])

        visit_ImportFrom = visit_Import

    v = V()
    for n in nodes:
        v.visit(n)
    return out


_MUTATORS = {"append", "extend", "add", "discard", "remove", "update", "pop", "clear",
             "setdefault", "insert", "popitem", "sort"}


def _names_mutated(nodes) -> list[str]:
    """Local names whose object is mutated in place (method call, item or attribute store)."""
    out: list[str] = []

    def add(n):
        if n not in out:
            out.append(n)

    class V(ast.NodeVisitor):
        def visit_Call(self, node):
            f = node.func
            if isinstance(f, ast.Attribute) and f.attr in _MUTATORS and isinstance(f.value, ast.Name):
                add(f.value.id)
            self.generic_visit(node)

        def visit_Subscript(self, node):
            if isinstance(node.ctx, (ast.Store, ast.Del)) and isinstance(node.value, ast.Name):
                add(node.value.id)
            self.generic_visit(node)

        def visit_Attribute(self, node):
            if isinstance(node.ctx, (ast.Store, ast.Del)) and isinstance(node.value, ast.Name):
                add(node.value.id)
            self.generic_visit(node)

        def visit_Lambda(self, node):
            pass

    v = V()
    for n in nodes:
        v.visit(n)
    return out


def _vc(attr):
    return ast.Attribute(value=ast.Name(id="__vc__", ctx=ast.Load()), attr=attr, ctx=ast.Load())


def _call(attr, *args):
    return ast.Call(func=_vc(attr), args=list(args), keywords=[])


def _locals():
    return ast.Call(func=ast.Name(id="locals", ctx=ast.Load()), args=[], keywords=[])


def _const(v):
    return ast.Constant(value=v)


class Transformer(ast.NodeTransformer):
    def __init__(self, while_specs=(), extra_havoc=None):
        self.extra_havoc = extra_havoc or {}
        self.loop_counter = 0
        self.loops: list[dict] = []
        self.while_specs = set(while_specs)
        self.loop_stack: list[tuple[int, bool]] = []
        self.unsupported: list[str] = []
        self.has_yield = False
        self.gen_funcs: list[str] = []

    # -- function headers
    def _strip_args(self, a: ast.arguments):
        for arg in a.posonlyargs + a.args + a.kwonlyargs:
            arg.annotation = None
        if a.vararg:
            a.vararg.annotation = None
        if a.kwarg:
            a.kwarg.annotation = None

    def visit_FunctionDef(self, node):
        saved = self.loop_stack
        saved_y = self.has_yield
        self.loop_stack = []
        self.has_yield = False
        self.generic_visit(node)
        self.loop_stack = saved
        self._strip_args(node.args)
        body = node.body
        if self.has_yield:
            # a generator: the transformed function runs eagerly and returns the yielded values
            self.gen_funcs.append(node.name)
            begin = ast.Assign(targets=[ast.Name(id="__gen", ctx=ast.Store())], value=_call("gen_begin"))
            end = ast.Return(value=_call("gen_end", ast.Name(id="__gen", ctx=ast.Load())))
            body = [begin, ast.Try(body=body, handlers=[], orelse=[],
                                   finalbody=[ast.Expr(value=_call("gen_leave", ast.Name(id="__gen", ctx=ast.Load())))]),
                    end]
        self.has_yield = saved_y
        new = ast.FunctionDef(name=node.name, args=node.args, body=body, decorator_list=[],
                              returns=None, type_comment=None, type_params=[])
        ast.copy_location(new, node)
        if isinstance(node, ast.AsyncFunctionDef):
            # calling an `async def` only creates a coroutine; its body runs when it is awaited
            new.decorator_list = [_vc("coroutine_function")]
        return new

    visit_AsyncFunctionDef = visit_FunctionDef

    def visit_Lambda(self, node):
        self.generic_visit(node)
        return node

    def visit_AnnAssign(self, node):
        self.generic_visit(node)
        if node.value is None:
            return ast.copy_location(ast.Pass(), node)
        return ast.copy_location(ast.Assign(targets=[node.target], value=node.value), node)

    # -- async
    def visit_Await(self, node):
        self.generic_visit(node)
        return ast.copy_location(_call("await_", node.value), node)

    def visit_AsyncWith(self, node):
        self.generic_visit(node)
        items = [ast.withitem(context_expr=_call("actx", it.context_expr),
                              optional_vars=it.optional_vars) for it in node.items]
        return ast.copy_location(ast.With(items=items, body=node.body), node)

    def visit_Yield(self, node):
        self.generic_visit(node)
        self.has_yield = True
        return ast.copy_location(_call("yield_", node.value if node.value is not None else _const(None)), node)

    def visit_YieldFrom(self, node):
        self.generic_visit(node)
        self.has_yield = True
        return ast.copy_location(_call("yield_from", node.value), node)

    # -- operators
    def visit_Compare(self, node):
        self.generic_visit(node)
        if any(isinstance(op, (ast.Is, ast.IsNot)) for op in node.ops):
            if len(node.ops) != 1:
                self.unsupported.append(f"chained `is` at line {node.lineno}")
                return node
            c = _call("is_", node.left, node.comparators[0])
            if isinstance(node.ops[0], ast.IsNot):
                c = _call("not_", c)
            return ast.copy_location(c, node)
        if any(isinstance(op, (ast.In, ast.NotIn)) for op in node.ops):
            if len(node.ops) != 1:
                self.unsupported.append(f"chained `in` at line {node.lineno}")
                return node
            c = _call("in_", node.left, node.comparators[0])
            if isinstance(node.ops[0], ast.NotIn):
                c = _call("not_", c)
            return ast.copy_location(c, node)
        return node

    def visit_UnaryOp(self, node):
        self.generic_visit(node)
        if isinstance(node.op, ast.Not):
            return ast.copy_location(_call("not_", node.operand), node)
        return node

    def visit_Call(self, node):
        self.generic_visit(node)
        for k, a in enumerate(node.args):
            if isinstance(a, ast.Starred):
                node.args[k] = ast.Starred(value=_call("star", a.value), ctx=ast.Load())
        f = node.func
        if isinstance(f, ast.Attribute) and f.attr == "join" and len(node.args) == 1 and not node.keywords:
            return ast.copy_location(_call("join", f.value, node.args[0]), node)
        return node

    def visit_BoolOp(self, node):
        """`a or b` / `a and b` -> __vc__.boolop(is_or, lambda: a, lambda: b): Python's semantics on a real path;
        inside a speculative evaluation (a merged conditional, the element test of any()) the operands are joined
        into one term instead of asking for a decision."""
        self.generic_visit(node)
        if any(isinstance(n, (ast.NamedExpr, ast.Await, ast.Yield, ast.YieldFrom)) for n in ast.walk(node)):
            return node

        def thunk(e):
            return ast.Lambda(args=ast.arguments(posonlyargs=[], args=[], kwonlyargs=[], kw_defaults=[],
                                                 defaults=[]), body=e)

        return ast.copy_location(_call("boolop", _const(isinstance(node.op, ast.Or)), *[thunk(v) for v in node.values]), node)

    def visit_IfExp(self, node):
        self.generic_visit(node)

        def thunk(e):
            return ast.Lambda(args=ast.arguments(posonlyargs=[], args=[], kwonlyargs=[], kw_defaults=[],
                                                 defaults=[]), body=e)

        return ast.copy_location(_call("ite", node.test, thunk(node.body), thunk(node.orelse)), node)

    def visit_JoinedStr(self, node):
        self.generic_visit(node)
        parts = []
        for v in node.values:
            if isinstance(v, ast.Constant):
                parts.append(v)
            elif isinstance(v, ast.Call) and isinstance(v.func, ast.Attribute) \
                    and isinstance(v.func.value, ast.Name) and v.func.value.id == "__vc__" \
                    and v.func.attr == "fmt":
                parts.append(v)
            else:
                parts.append(v)
        return ast.copy_location(_call("fstr", ast.List(elts=parts, ctx=ast.Load())), node)

    def visit_FormattedValue(self, node):
        self.generic_visit(node)
        spec = node.format_spec if node.format_spec is not None else _const("")
        return ast.copy_location(_call("fmt", node.value, _const(node.conversion), spec), node)

    # -- displays and comprehensions
    def visit_Dict(self, node):
        self.generic_visit(node)
        keys = ast.List(elts=[k if k is not None else _const(None) for k in node.keys], ctx=ast.Load())
        stars = ast.List(elts=[_const(k is None) for k in node.keys], ctx=ast.Load())
        vals = ast.List(elts=node.values, ctx=ast.Load())
        return ast.copy_location(_call("mkdict", keys, vals, stars), node)

    def visit_Set(self, node):
        self.generic_visit(node)
        return ast.copy_location(_call("mkset", ast.List(elts=node.elts, ctx=ast.Load())), node)

    def _comp(self, node, kind, elt_of):
        self.generic_visit(node)
        elt = elt_of(node)
        if len(node.generators) != 1 or node.generators[0].is_async:
            return node  # nested generators run natively (concrete iterables only)
        g = node.generators[0]
        tgt = g.target

        def lam(body):
            if isinstance(tgt, ast.Name):
                args = ast.arguments(posonlyargs=[], args=[ast.arg(arg=tgt.id)], kwonlyargs=[],
                                     kw_defaults=[], defaults=[])
                return ast.Lambda(args=args, body=body)
            if isinstance(tgt, (ast.Tuple, ast.List)) and all(isinstance(e, ast.Name) for e in tgt.elts):
                names = [e.id for e in tgt.elts]
                # a name bound twice (such as `_`) keeps its last binding; earlier ones get a unique name
                uniq = [n if n not in names[k + 1:] else f"__dup{k}" for k, n in enumerate(names)]
                inner = ast.Lambda(
                    args=ast.arguments(posonlyargs=[], args=[ast.arg(arg=n) for n in uniq],
                                       kwonlyargs=[], kw_defaults=[], defaults=[]), body=body)
                outer_args = ast.arguments(posonlyargs=[], args=[ast.arg(arg="__x")], kwonlyargs=[],
                                           kw_defaults=[], defaults=[])
                return ast.Lambda(args=outer_args, body=ast.Call(
                    func=inner, args=[ast.Starred(value=ast.Name(id="__x", ctx=ast.Load()),
                                                  ctx=ast.Load())], keywords=[]))
            return None

        f = lam(elt)
        if f is None:
            return node
        if g.ifs:
            cond = g.ifs[0] if len(g.ifs) == 1 else ast.BoolOp(op=ast.And(), values=g.ifs)
            c = lam(cond)
        else:
            c = _const(None)
        return ast.copy_location(_call("comp", _const(kind), f, g.iter, c), node)

    def visit_ListComp(self, node):
        return self._comp(node, "list", lambda n: n.elt)

    def visit_SetComp(self, node):
        return self._comp(node, "set", lambda n: n.elt)

    def visit_GeneratorExp(self, node):
        return self._comp(node, "gen", lambda n: n.elt)

    def visit_DictComp(self, node):
        return self._comp(node, "dict", lambda n: ast.Tuple(elts=[n.key, n.value], ctx=ast.Load()))

    # -- loops
    def _havoc_stmts(self, ctl, names):
        stmts = []
        for n in names:
            assign = ast.Assign(
                targets=[ast.Name(id=n, ctx=ast.Store())],
                value=ast.Call(func=ast.Attribute(value=ast.Name(id=ctl, ctx=ast.Load()),
                                                  attr="havoc", ctx=ast.Load()),
                               args=[_const(n), ast.Name(id=n, ctx=ast.Load())], keywords=[]))
            stmts.append(ast.Try(
                body=[assign],
                handlers=[ast.ExceptHandler(type=ast.Name(id="NameError", ctx=ast.Load()),
                                            name=None, body=[ast.Pass()])],
                orelse=[], finalbody=[]))
        return stmts

    def _ctl_call(self, ctl, meth, *args):
        return ast.Expr(value=ast.Call(
            func=ast.Attribute(value=ast.Name(id=ctl, ctx=ast.Load()), attr=meth, ctx=ast.Load()),
            args=list(args), keywords=[]))

    def _ctl_attr(self, ctl, attr):
        return ast.Attribute(value=ast.Name(id=ctl, ctx=ast.Load()), attr=attr, ctx=ast.Load())

    def visit_For(self, node):
        k = self.loop_counter
        self.loop_counter += 1
        ctl = f"__L{k}"
        self.loops.append(dict(ordinal=k, kind="for", lineno=node.lineno))
        self.loop_stack.append((k, True))
        node.iter = self.visit(node.iter)
        node.target = self.visit(node.target)
        body = [self.visit(s) for s in node.body]
        body = [x for s in body for x in (s if isinstance(s, list) else [s])]
        self.loop_stack.pop()
        orelse = [self.visit(s) for s in node.orelse]
        orelse = [x for s in orelse for x in (s if isinstance(s, list) else [s])]
        tnames = _names_assigned([node.target])
        assigned = [n for n in _names_assigned(node.body) if n not in tnames and not n.startswith("__")]
        mutated = [n for n in _names_mutated(node.body) if n not in tnames and n not in assigned]
        names = assigned + mutated
        names += [n for n in self.extra_havoc.get(k, ()) if n not in names]
        names_c = ast.Tuple(elts=[_const(n) for n in names], ctx=ast.Load())
        itv = f"__it{k}"
        # the accumulator of the loop, by role: the one local that the body appends / adds to (contracts refer to it
        # as e.acc, so that renaming it or writing the loop as a comprehension does not matter)
        accs = sorted({c.func.value.id for st in node.body for c in ast.walk(st)
                       if isinstance(c, ast.Call) and isinstance(c.func, ast.Attribute) and c.func.attr in ("append", "add")
                       and isinstance(c.func.value, ast.Name) and c.func.value.id in names})
        acc = _const(accs[0] if len(accs) == 1 else None)
        pre = ast.Assign(targets=[ast.Name(id=ctl, ctx=ast.Store())],
                         value=_call("loop", _const(k), node.iter, _locals(), names_c, acc))
        sym = self._ctl_attr(ctl, "sym")
        head = ast.If(test=sym,
                      body=self._havoc_stmts(ctl, names) + [self._ctl_call(ctl, "assume_inv", _locals())],
                      orelse=[])
        assign_t = ast.Assign(targets=[node.target], value=ast.Name(id=itv, ctx=ast.Load()))
        tail = ast.If(test=sym, body=[self._ctl_call(ctl, "end_body", _locals())], orelse=[])
        exit_ = ast.If(test=sym,
                       body=self._havoc_stmts(ctl, names) + [self._ctl_call(ctl, "assume_exit", _locals())],
                       orelse=[])
        new = ast.For(
            target=ast.Name(id=itv, ctx=ast.Store()),
            iter=ast.Call(func=self._ctl_attr(ctl, "items"), args=[], keywords=[]),
            body=[head, assign_t, *body, tail],
            orelse=[exit_, *orelse],
            type_comment=None)
        out = [pre, new]
        for o in out:
            ast.copy_location(o, node)
            ast.fix_missing_locations(o)
        return out

    visit_AsyncFor = visit_For

    def visit_While(self, node):
        k = self.loop_counter
        self.loop_counter += 1
        self.loops.append(dict(ordinal=k, kind="while", lineno=node.lineno))
        if k not in self.while_specs:
            self.loop_stack.append((k, False))
            self.generic_visit(node)
            self.loop_stack.pop()
            return node
        if node.orelse:
            self.unsupported.append(f"while-else at line {node.lineno}")
        ctl = f"__L{k}"
        self.loop_stack.append((k, True))
        test = self.visit(node.test)
        body = [self.visit(s) for s in node.body]
        body = [x for s in body for x in (s if isinstance(s, list) else [s])]
        self.loop_stack.pop()
        assigned = [n for n in _names_assigned(node.body) if not n.startswith("__")]
        mutated = [n for n in _names_mutated(node.body) if n not in assigned]
        names = assigned + mutated
        names += [n for n in self.extra_havoc.get(k, ()) if n not in names]
        names_c = ast.Tuple(elts=[_const(n) for n in names], ctx=ast.Load())
        pre = ast.Assign(targets=[ast.Name(id=ctl, ctx=ast.Store())],
                         value=_call("wloop", _const(k), _locals(), names_c))
        head = [self._ctl_call(ctl, "head", _locals()),
                *self._havoc_stmts(ctl, names),
                self._ctl_call(ctl, "assume_inv", _locals())]
        brk = ast.If(test=_call("not_", test), body=[ast.Break()], orelse=[])
        new = ast.While(test=_const(True), body=[*head, brk, *body], orelse=[])
        out = [pre, new]
        for o in out:
            ast.copy_location(o, node)
            ast.fix_missing_locations(o)
        return out

    def visit_Continue(self, node):
        if self.loop_stack and self.loop_stack[-1][1]:
            k = self.loop_stack[-1][0]
            kind = next(lp["kind"] for lp in self.loops if lp["ordinal"] == k)
            if kind == "for":
                ctl = f"__L{k}"
                chk = ast.If(test=self._ctl_attr(ctl, "sym"),
                             body=[self._ctl_call(ctl, "end_body", _locals())], orelse=[])
                out = [chk, node]
                for o in out:
                    ast.copy_location(o, node)
                    ast.fix_missing_locations(o)
                return out
        return node

    def visit_Match(self, node):
        self.unsupported.append(f"match statement at line {node.lineno}")
        return node

    def visit_TryStar(self, node):
        self.unsupported.append(f"except* at line {node.lineno}")
        return node


COMP_AS_LOOP: set = set()  # "relpath::qual" keys whose `name = [E for .. in it]` statements are read as loops


class _CompToLoop(ast.NodeTransformer):
    """`x = [E for t in it]`  ->  `x = []` ; `for t in it: x.append(E)`.

    A comprehension whose element has effects (a call that writes) is a loop; read as one, its body is
    verified for an arbitrary iteration with the loop machinery (invariant, frame) instead of being a lazily
    evaluated mapped sequence.  The loop variable leaks into the function scope, which the rewrite refuses
    when that name is used elsewhere in the function."""

    def __init__(self, fn_node):
        self.names = [n.id for n in ast.walk(fn_node) if isinstance(n, ast.Name)]
        self.failed = []

    def visit_Assign(self, node):
        v = node.value
        if not (isinstance(v, ast.ListComp) and len(node.targets) == 1 and isinstance(node.targets[0], ast.Name)
                and len(v.generators) == 1 and not v.generators[0].is_async):
            return node
        gen = v.generators[0]
        tnames = [n.id for n in ast.walk(gen.target) if isinstance(n, ast.Name)]
        # the comprehension's variables are its own: rename them so that the loop does not rebind a
        # function-level name (the iterable is evaluated in the enclosing scope and keeps its names)
        self.count = getattr(self, "count", 0) + 1
        for part in [gen.target, v.elt] + list(gen.ifs):
            for n in ast.walk(part):
                if isinstance(n, ast.Name) and n.id in tnames:
                    n.id = f"comp{self.count}_{n.id}"
        x = node.targets[0].id
        # the iterable is evaluated before the target is rebound (`xs = [.. for x in xs ..]`)
        itname = f"comp{self.count}_iter"
        save = ast.Assign(targets=[ast.Name(id=itname, ctx=ast.Store())], value=gen.iter)
        init = ast.Assign(targets=[ast.Name(id=x, ctx=ast.Store())], value=ast.List(elts=[], ctx=ast.Load()))
        body = ast.Expr(ast.Call(func=ast.Attribute(value=ast.Name(id=x, ctx=ast.Load()), attr="append", ctx=ast.Load()),
                                 args=[v.elt], keywords=[]))
        if gen.ifs:
            test = gen.ifs[0] if len(gen.ifs) == 1 else ast.BoolOp(op=ast.And(), values=list(gen.ifs))
            body = ast.If(test=test, body=[body], orelse=[])
        loop = ast.For(target=gen.target, iter=ast.Name(id=itname, ctx=ast.Load()), body=[body], orelse=[])
        for n in ast.walk(loop.target):
            if isinstance(n, (ast.Name, ast.Tuple, ast.List)):
                n.ctx = ast.Store()
        return [ast.copy_location(save, node), ast.copy_location(init, node), ast.copy_location(loop, node)]

    def visit_Return(self, node):
        """`return [E for t in it]`  ->  `comp_ret = [E for t in it]` (rewritten as above) ; `return comp_ret`."""
        if not isinstance(node.value, ast.ListComp):
            return node
        name = f"comp_ret{getattr(self, 'count', 0) + 1}"
        assign = ast.copy_location(ast.Assign(targets=[ast.Name(id=name, ctx=ast.Store())], value=node.value), node)
        out = self.visit_Assign(assign)
        out = out if isinstance(out, list) else [out]
        return out + [ast.copy_location(ast.Return(value=ast.Name(id=name, ctx=ast.Load())), node)]

_PURE_METHODS = {"endswith", "startswith", "lower", "upper", "strip", "rstrip", "lstrip", "get", "isdigit", "keys", "values",
                 "items", "fullmatch", "match", "search", "compile", "execute", "from_json", "to_json"}


def _pure_expr(e) -> bool:
    """Syntactically free of effects: names, attributes, constants, comparisons, boolean / arithmetic operators,
    subscripts, tuples, and calls of a few query methods of str / dict."""
    for n in ast.walk(e):
        if isinstance(n, ast.Call):
            # (a capitalised name is a class by the repository's convention: constructing a node / record object from
            # the loop variables, as the comprehension form of the same loop does)
            constructs = isinstance(n.func, ast.Name) and n.func.id[:1].isupper() and not n.keywords
            if not constructs and not (isinstance(n.func, ast.Attribute) and n.func.attr in _PURE_METHODS and not n.keywords):
                return False
        elif isinstance(n, (ast.Await, ast.Yield, ast.YieldFrom, ast.NamedExpr, ast.Lambda, ast.ListComp, ast.SetComp,
                            ast.DictComp, ast.GeneratorExp, ast.Starred)):
            return False
    return True


def _filter_map_loop(init, loop):
    """`X = []` followed by `for T in IT:` whose body only filters (guards with `continue`, or one `if`) and appends
    one pure expression to X: returns (X, element, condition or None), else None."""
    if not (isinstance(init, ast.Assign) and len(init.targets) == 1 and isinstance(init.targets[0], ast.Name)
            and isinstance(init.value, ast.List) and not init.value.elts):
        return None
    if not isinstance(loop, ast.For) or loop.orelse:
        return None
    x = init.targets[0].id
    if not all(isinstance(n, ast.Name) for n in ast.walk(loop.target) if not isinstance(n, (ast.Tuple, ast.List, ast.Store))):
        return None
    conds = []
    body = list(loop.body)
    while body and isinstance(body[0], ast.If) and not body[0].orelse and len(body[0].body) == 1 \
            and isinstance(body[0].body[0], ast.Continue):
        conds.append(ast.UnaryOp(op=ast.Not(), operand=body[0].test))
        body = body[1:]
    if len(body) == 1 and isinstance(body[0], ast.If) and not body[0].orelse and len(body[0].body) == 1:
        conds.append(body[0].test)
        body = body[0].body
    if len(body) != 1:
        return None
    st = body[0]
    if not (isinstance(st, ast.Expr) and isinstance(st.value, ast.Call) and isinstance(st.value.func, ast.Attribute)
            and st.value.func.attr == "append" and isinstance(st.value.func.value, ast.Name)
            and st.value.func.value.id == x and len(st.value.args) == 1 and not st.value.keywords):
        return None
    elt = st.value.args[0]
    if not _pure_expr(elt) or not all(_pure_expr(c) for c in conds) or not _pure_expr(loop.iter):
        return None
    if any(isinstance(n, ast.Name) and n.id == x for part in [elt, loop.iter] + conds for n in ast.walk(part)):
        return None
    return x, elt, conds


def _search_loop(loop):
    """`for T in IT: if C: return K` with pure C and a constant K: returns (C, the return statement), else None."""
    if not isinstance(loop, ast.For) or loop.orelse or len(loop.body) != 1:
        return None
    st = loop.body[0]
    if not (isinstance(st, ast.If) and not st.orelse and len(st.body) == 1 and isinstance(st.body[0], ast.Return)):
        return None
    ret = st.body[0]
    if ret.value is not None and not isinstance(ret.value, ast.Constant):
        return None
    if not _pure_expr(st.test) or not _pure_expr(loop.iter):
        return None
    return st.test, ret


def _dict_fill_loop(init, loop):
    """`X = {}` followed by `for T in IT:` whose body only stores one pure value under one pure key of X (possibly
    chosen by an if / else with the same key, possibly after guards with `continue`): returns (X, key, value,
    conditions), else None."""
    if not (isinstance(init, ast.Assign) and len(init.targets) == 1 and isinstance(init.targets[0], ast.Name)
            and isinstance(init.value, ast.Dict) and not init.value.keys):
        return None
    if not isinstance(loop, ast.For) or loop.orelse:
        return None
    x = init.targets[0].id
    conds = []
    body = list(loop.body)
    while body and isinstance(body[0], ast.If) and not body[0].orelse and len(body[0].body) == 1 \
            and isinstance(body[0].body[0], ast.Continue):
        conds.append(ast.UnaryOp(op=ast.Not(), operand=body[0].test))
        body = body[1:]

    def store(st):
        if isinstance(st, ast.Assign) and len(st.targets) == 1 and isinstance(st.targets[0], ast.Subscript) \
                and isinstance(st.targets[0].value, ast.Name) and st.targets[0].value.id == x:
            return st.targets[0].slice, st.value
        return None

    if len(body) != 1:
        return None
    st = body[0]
    kv = store(st)
    if kv is None and isinstance(st, ast.If) and len(st.body) == 1 and len(st.orelse) == 1:
        a, b = store(st.body[0]), store(st.orelse[0])
        if a is None or b is None or ast.unparse(a[0]) != ast.unparse(b[0]):
            return None
        kv = (a[0], ast.IfExp(test=st.test, body=a[1], orelse=b[1]))
    if kv is None:
        return None
    key, val = kv
    parts = [key, val, loop.iter] + conds
    if not all(_pure_expr(p) for p in parts):
        return None
    if any(isinstance(n, ast.Name) and n.id == x for part in parts for n in ast.walk(part)):
        return None
    return x, key, val, conds


class _LoopToComp(ast.NodeTransformer):
    """The inverse of _CompToLoop for loops nobody wrote a contract for: `X = []; for T in IT: [guards] X.append(E)`
    with pure E / guards is the list comprehension `X = [E for T in IT if guards]`, and is read as one.  Applied only
    while the function has more loops than its contract describes (`budget`), in source order."""

    def __init__(self, budget):
        self.budget = budget

    def _rewrite(self, stmts):
        out = []
        k = 0
        while k < len(stmts):
            st = stmts[k]
            nxt = stmts[k + 1] if k + 1 < len(stmts) else None
            found = _search_loop(st) if self.budget > 0 else None
            if found is not None:
                # `for T in IT: if C: return K`  ==  `if any(C for T in IT): return K`
                cond, ret = found
                gen = ast.GeneratorExp(elt=cond, generators=[ast.comprehension(target=st.target, iter=st.iter, ifs=[], is_async=0)])
                test = ast.Call(func=ast.Name(id="any", ctx=ast.Load()), args=[gen], keywords=[])
                out.append(ast.copy_location(ast.If(test=test, body=[ret], orelse=[]), st))
                self.budget -= 1
                k += 1
                continue
            dm = _dict_fill_loop(st, nxt) if (self.budget > 0 and nxt is not None) else None
            if dm is not None:
                x, key, val, conds = dm
                comp = ast.DictComp(key=key, value=val, generators=[ast.comprehension(target=nxt.target, iter=nxt.iter, ifs=conds, is_async=0)])
                out.append(ast.copy_location(ast.Assign(targets=[ast.Name(id=x, ctx=ast.Store())], value=comp), st))
                self.budget -= 1
                k += 2
                continue
            m = _filter_map_loop(st, nxt) if (self.budget > 0 and nxt is not None) else None
            if m is not None:
                x, elt, conds = m
                comp = ast.ListComp(elt=elt, generators=[ast.comprehension(target=nxt.target, iter=nxt.iter, ifs=conds, is_async=0)])
                out.append(ast.copy_location(ast.Assign(targets=[ast.Name(id=x, ctx=ast.Store())], value=comp), st))
                self.budget -= 1
                k += 2
                continue
            out.append(self.generic_visit(st))
            k += 1
        return out

    def generic_visit(self, node):
        for field in ("body", "orelse", "finalbody"):
            v = getattr(node, field, None)
            if isinstance(v, list) and v and isinstance(v[0], ast.stmt):
                setattr(node, field, self._rewrite(v))
        for h in getattr(node, "handlers", []) or []:
            h.body = self._rewrite(h.body)
        return node


def _count_loops(fn_node) -> int:
    n = 0
    stack = list(fn_node.body)
    while stack:
        x = stack.pop()
        if isinstance(x, (ast.FunctionDef, ast.AsyncFunctionDef, ast.Lambda, ast.ClassDef)):
            continue
        if isinstance(x, (ast.For, ast.AsyncFor, ast.While)):
            n += 1
        stack.extend(ast.iter_child_nodes(x))
    return n


def transformed_function(relpath: str, qual: str, while_specs=(), extra_havoc=None):
    """Return (code_factory, info).  code_factory(globals) -> python function object."""
    src, node = find_def(relpath, qual)
    if not isinstance(node, (ast.FunctionDef, ast.AsyncFunctionDef)):
        raise ExtractError(f"{relpath}::{qual} is not a function")
    import copy

    node = copy.deepcopy(node)
    pre_failed = []
    # the decorators are dropped from the verified text.  A memoising one changes what a call returns (the result of
    # an earlier call with equal arguments) unless equal arguments are indistinguishable: str / bytes parameters only
    for d in node.decorator_list:
        text = ast.unparse(d)
        if "cache" in text.split("(")[0]:
            params = node.args.posonlyargs + node.args.args + node.args.kwonlyargs
            plain = params and not node.args.vararg and not node.args.kwarg and all(
                a.annotation is not None and ast.unparse(a.annotation) in ("str", "bytes") for a in params)
            if not plain:
                pre_failed.append(f"@{text}: memoised on arguments whose equality does not determine the result "
                                  "(only str / bytes parameters are read through the cache)")
    if f"{relpath}::{qual}" in COMP_AS_LOOP:
        pre = _CompToLoop(node)
        node = pre.visit(node)
        ast.fix_missing_locations(node)
        pre_failed = pre.failed
    described = (max(while_specs) + 1) if while_specs else 0
    extra_loops = _count_loops(node) - described
    if extra_loops > 0:
        _LoopToComp(extra_loops).generic_visit(node)
        ast.fix_missing_locations(node)
    tr = Transformer(while_specs, extra_havoc)
    new = tr.visit(node)
    tr.unsupported.extend(pre_failed)
    mod = ast.Module(body=[new], type_ignores=[])
    ast.fix_missing_locations(mod)
    try:
        code = compile(mod, filename=f"<pyvc:{relpath}::{qual}>", mode="exec")
    except Exception as e:  # noqa: BLE001
        raise ExtractError(f"transformed {qual} does not compile: {e}") from None
    info = dict(loops=tr.loops, unsupported=tr.unsupported,
                is_async=isinstance(node, ast.AsyncFunctionDef),
                argnames=[a.arg for a in node.args.posonlyargs + node.args.args + node.args.kwonlyargs],
                text=ast.unparse(mod))

    def factory(glob: dict):
        ns = dict(glob)
        exec(code, ns)  # noqa: S102
        fn = ns[node.name]
        # the def statement bound the function's own name in its globals; in the real module a method is not a
        # module global and a global of that name (e.g. the module `glob` inside NamedGlob.glob) keeps its meaning
        if node.name in glob:
            ns[node.name] = glob[node.name]
        elif "." in qual:
            del ns[node.name]
        return fn

    return factory, info
