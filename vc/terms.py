"""SMT-LIB term construction for pyvc.

A term is an immutable (sort, text) pair.  Literals are folded so that code running on
concrete values never produces a symbolic decision.  Every uninterpreted symbol used is
recorded in a `Decls` table, from which the declaration prelude of a query is printed.
"""

from __future__ import annotations

INT = "Int"
BOOL = "Bool"
STR = "String"  # used for Python str and (code units 0..255) for Python bytes


def arr(k, v):
    return f"(Array {k} {v})"


class T:
    __slots__ = ("sort", "s", "lit")

    def __init__(self, sort, s, lit=None):
        self.sort = sort
        self.s = s
        self.lit = lit  # python literal when the term is a constant (None otherwise; see NOLIT)

    def __repr__(self):
        return f"T<{self.sort}:{self.s}>"

    @property
    def is_lit(self):
        return self.lit is not None


def smt_str(py: str) -> str:
    out = []
    for ch in py:
        o = ord(ch)
        if ch == '"':
            out.append('""')
        elif ch == "\\" or o < 32 or o > 126:
            out.append("\\u{%x}" % o)
        else:
            out.append(ch)
    return '"' + "".join(out) + '"'


def mk_int(v: int) -> T:
    return T(INT, str(v) if v >= 0 else f"(- {-v})", lit=("i", v))


def mk_bool(v: bool) -> T:
    return T(BOOL, "true" if v else "false", lit=("b", bool(v)))


def mk_str(v: str) -> T:
    if any(ord(c) > 0x2FFFF for c in v):
        raise ValueError("code point beyond SMT-LIB string alphabet")
    return T(STR, smt_str(v), lit=("s", v))


def mk_bytes(v: bytes) -> T:
    return mk_str(v.decode("latin-1"))


TRUE = mk_bool(True)
FALSE = mk_bool(False)


def litval(t: T):
    return t.lit[1]


def app(sort, op, *args) -> T:
    return T(sort, "(" + op + "".join(" " + a.s for a in args) + ")")


# ---------------------------------------------------------------- booleans


def Not(a: T) -> T:
    if a.is_lit:
        return mk_bool(not litval(a))
    if a.s.startswith("(not "):
        return T(BOOL, a.s[5:-1])
    return app(BOOL, "not", a)


def And(*xs: T) -> T:
    ys = []
    for x in xs:
        if x.is_lit:
            if not litval(x):
                return FALSE
            continue
        ys.append(x)
    if not ys:
        return TRUE
    if len(ys) == 1:
        return ys[0]
    return app(BOOL, "and", *ys)


def Or(*xs: T) -> T:
    ys = []
    for x in xs:
        if x.is_lit:
            if litval(x):
                return TRUE
            continue
        ys.append(x)
    if not ys:
        return FALSE
    if len(ys) == 1:
        return ys[0]
    return app(BOOL, "or", *ys)


def Implies(a: T, b: T) -> T:
    return Or(Not(a), b)


def Iff(a: T, b: T) -> T:
    if a.is_lit and b.is_lit:
        return mk_bool(litval(a) == litval(b))
    if a.is_lit:
        return b if litval(a) else Not(b)
    if b.is_lit:
        return a if litval(b) else Not(a)
    return app(BOOL, "=", a, b)


def Ite(c: T, a: T, b: T) -> T:
    if c.is_lit:
        return a if litval(c) else b
    assert a.sort == b.sort, (a, b)
    if a.s == b.s:
        return a
    return app(a.sort, "ite", c, a, b)


def Eq(a: T, b: T) -> T:
    assert a.sort == b.sort, (a, b)
    if a.is_lit and b.is_lit:
        return mk_bool(litval(a) == litval(b))
    if a.s == b.s:
        return TRUE
    if a.sort == BOOL:
        return Iff(a, b)
    return app(BOOL, "=", a, b)


def Ne(a, b):
    return Not(Eq(a, b))


def Distinct(*xs):
    return app(BOOL, "distinct", *xs)


# ---------------------------------------------------------------- integers


def _ibin(op, pyop, a, b):
    if a.is_lit and b.is_lit:
        return mk_int(pyop(litval(a), litval(b)))
    return app(INT, op, a, b)


def Add(a, b):
    if a.is_lit and litval(a) == 0:
        return b
    if b.is_lit and litval(b) == 0:
        return a
    return _ibin("+", lambda x, y: x + y, a, b)


def Sub(a, b):
    if b.is_lit and litval(b) == 0:
        return a
    return _ibin("-", lambda x, y: x - y, a, b)


def Mul(a, b):
    return _ibin("*", lambda x, y: x * y, a, b)


def Neg(a):
    if a.is_lit:
        return mk_int(-litval(a))
    return app(INT, "-", a)


def _icmp(op, pyop, a, b):
    if a.is_lit and b.is_lit:
        return mk_bool(pyop(litval(a), litval(b)))
    return app(BOOL, op, a, b)


def Lt(a, b):
    return _icmp("<", lambda x, y: x < y, a, b)


def Le(a, b):
    return _icmp("<=", lambda x, y: x <= y, a, b)


def Gt(a, b):
    return _icmp(">", lambda x, y: x > y, a, b)


def Ge(a, b):
    return _icmp(">=", lambda x, y: x >= y, a, b)


def Max(a, b):
    return Ite(Ge(a, b), a, b)


def Min(a, b):
    return Ite(Le(a, b), a, b)


# ---------------------------------------------------------------- strings


def Concat(*xs: T) -> T:
    ys = []
    for x in xs:
        assert x.sort == STR, x
        if x.is_lit and litval(x) == "":
            continue
        if ys and ys[-1].is_lit and x.is_lit:
            ys[-1] = mk_str(litval(ys[-1]) + litval(x))
        else:
            ys.append(x)
    if not ys:
        return mk_str("")
    if len(ys) == 1:
        return ys[0]
    return app(STR, "str.++", *ys)


def Len(a: T) -> T:
    if a.is_lit:
        return mk_int(len(litval(a)))
    return app(INT, "str.len", a)


def Substr(a: T, start: T, n: T) -> T:
    if a.is_lit and start.is_lit and n.is_lit:
        s, i, k = litval(a), litval(start), litval(n)
        if i < 0 or i >= len(s) or k <= 0:
            return mk_str("")
        return mk_str(s[i : i + k])
    return app(STR, "str.substr", a, start, n)


def PrefixOf(p: T, a: T) -> T:
    if a.is_lit and p.is_lit:
        return mk_bool(litval(a).startswith(litval(p)))
    return app(BOOL, "str.prefixof", p, a)


def SuffixOf(p: T, a: T) -> T:
    if a.is_lit and p.is_lit:
        return mk_bool(litval(a).endswith(litval(p)))
    return app(BOOL, "str.suffixof", p, a)


def Contains(a: T, sub: T) -> T:
    if a.is_lit and sub.is_lit:
        return mk_bool(litval(sub) in litval(a))
    return app(BOOL, "str.contains", a, sub)


def IndexOf(a: T, sub: T, start: T) -> T:
    if a.is_lit and sub.is_lit and start.is_lit:
        return mk_int(litval(a).find(litval(sub), litval(start)))
    return app(INT, "str.indexof", a, sub, start)


def ReplaceAll(a: T, old: T, new: T) -> T:
    if a.is_lit and old.is_lit and new.is_lit and litval(old) != "":
        return mk_str(litval(a).replace(litval(old), litval(new)))
    return app(STR, "str.replace_all", a, old, new)


def ToLower(a: T) -> T:
    """ASCII lower-casing (cvc5 extension str.to_lower; z3 has no counterpart)."""
    if a.is_lit:
        return mk_str("".join(chr(ord(c) + 32) if "A" <= c <= "Z" else c for c in litval(a)))
    return app(STR, "str.to_lower", a)


def At(a: T, i: T) -> T:
    return Substr(a, i, mk_int(1))


def StrLt(a, b):
    if a.is_lit and b.is_lit:
        return mk_bool(litval(a) < litval(b))
    return app(BOOL, "str.<", a, b)


def StrLe(a, b):
    if a.is_lit and b.is_lit:
        return mk_bool(litval(a) <= litval(b))
    return app(BOOL, "str.<=", a, b)


def ToCode(a):
    if a.is_lit:
        s = litval(a)
        return mk_int(ord(s) if len(s) == 1 else -1)
    return app(INT, "str.to_code", a)


def FromCode(a):
    if a.is_lit:
        v = litval(a)
        return mk_str(chr(v) if 0 <= v <= 0x2FFFF else "")
    return app(STR, "str.from_code", a)


# ---------------------------------------------------------------- arrays


def Select(a: T, i: T, vsort: str) -> T:
    return app(vsort, "select", a, i)


def Store(a: T, i: T, v: T) -> T:
    return app(a.sort, "store", a, i, v)


def ConstArray(sort: str, v: T) -> T:
    return T(sort, f"((as const {sort}) {v.s})")


# ---------------------------------------------------------------- quantifiers


def ForAll(bound: list[tuple[str, str]], body: T, patterns=None) -> T:
    bs = " ".join(f"({n} {s})" for n, s in bound)
    if patterns:
        pats = " ".join(":pattern (" + " ".join(p.s for p in pat) + ")" for pat in patterns)
        return T(BOOL, f"(forall ({bs}) (! {body.s} {pats}))")
    return T(BOOL, f"(forall ({bs}) {body.s})")


def Exists(bound, body: T) -> T:
    bs = " ".join(f"({n} {s})" for n, s in bound)
    return T(BOOL, f"(exists ({bs}) {body.s})")


def Var(name, sort) -> T:
    return T(sort, name)


# ---------------------------------------------------------------- declarations


class Decls:
    """Uninterpreted sorts, constants and functions used by a set of terms."""

    def __init__(self):
        self.sorts: dict[str, str] = {}
        self.funs: dict[str, str] = {}
        self.order: list[str] = []
        self.axioms: list[T] = []  # global background facts (about declared functions)

    def sort(self, name):
        if name not in self.sorts:
            self.sorts[name] = f"(declare-sort {name} 0)"
        return name

    def const(self, name, sort) -> T:
        d = f"(declare-fun {name} () {sort})"
        old = self.funs.get(name)
        if old is None:
            self.funs[name] = d
            self.order.append(name)
        elif old != d:
            raise ValueError(f"redeclared {name}: {old} vs {d}")
        return T(sort, name)

    def fun(self, name, argsorts, sort):
        d = f"(declare-fun {name} ({' '.join(argsorts)}) {sort})"
        old = self.funs.get(name)
        if old is None:
            self.funs[name] = d
            self.order.append(name)
        elif old != d:
            raise ValueError(f"redeclared {name}: {old} vs {d}")

        def call(*args):
            assert len(args) == len(argsorts), (name, args)
            for a, s in zip(args, argsorts):
                assert a.sort == s, (name, a, s)
            if not args:
                return T(sort, name)
            return app(sort, name, *args)

        return call

    def prelude(self) -> str:
        lines = list(self.sorts.values())
        lines += [self.funs[n] for n in self.order]
        return "\n".join(lines)

    def copy(self):
        d = Decls()
        d.sorts = dict(self.sorts)
        d.funs = dict(self.funs)
        d.order = list(self.order)
        d.axioms = list(self.axioms)
        return d


def query(decls: Decls, hyps: list[T], goal: T | None, logic="ALL", extra="", getvals=()) -> str:
    """SMT-LIB text that is unsat iff (hyps imply goal).  goal None: satisfiability of hyps."""
    out = [f"(set-logic {logic})"]
    if getvals:
        out.append("(set-option :produce-models true)")
    out.append(decls.prelude())
    if extra:
        out.append(extra)
    for a in decls.axioms:
        out.append(f"(assert {a.s})")
    for h in hyps:
        if h.is_lit and litval(h):
            continue
        out.append(f"(assert {h.s})")
    if goal is not None:
        out.append(f"(assert (not {goal.s}))")
    out.append("(check-sat)")
    if getvals:
        out.append("(get-value (" + " ".join(t.s for t in getvals) + "))")
    return "\n".join(out) + "\n"
