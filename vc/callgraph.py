"""A syntactic call graph over the methods of one class (self.method(...) calls) and module-level
functions of the same module, read from the working tree.  Used for reachability scans."""

from __future__ import annotations

import ast

from . import extract


def class_methods(relpath, cls):
    _, node = extract.find_def(relpath, cls)
    return {n.name: n for n in node.body if isinstance(n, (ast.FunctionDef, ast.AsyncFunctionDef))}


def calls_of(fn_node):
    """Names called inside a function: ('self', name) for self.name(...), ('fn', name) for name(...),
    ('attr', name) for x.name(...)."""
    out = set()
    for n in ast.walk(fn_node):
        if isinstance(n, ast.Call):
            f = n.func
            if isinstance(f, ast.Attribute):
                if isinstance(f.value, ast.Name) and f.value.id == "self":
                    out.add(("self", f.attr))
                else:
                    out.add(("attr", f.attr))
            elif isinstance(f, ast.Name):
                out.add(("fn", f.id))
        # functions passed as values, e.g. functools.partial(compute_inp_hashes, ...)
        if isinstance(n, ast.Attribute) and isinstance(n.value, ast.Name) and n.value.id == "self" \
                and isinstance(n.ctx, ast.Load):
            out.add(("selfref", n.attr))
    return out


def reachable(relpath, cls, start):
    """Transitive closure of self-calls (and self-references to methods) from method `start`;
    returns (set of method names reached, set of all call names seen)."""
    methods = class_methods(relpath, cls)
    seen, todo, names = set(), [start], set()
    while todo:
        m = todo.pop()
        if m in seen or m not in methods:
            continue
        seen.add(m)
        for kind, name in calls_of(methods[m]):
            names.add(name)
            if kind in ("self", "selfref") and name in methods:
                todo.append(name)
    return seen, names
